"""C05  The NLP objective is the sum of the declared Mayer, sum and integral terms."""
import itertools
import numpy as np
from .. import program as P, explore, nlp as NL
from . import _trans

ID = "C05"
OWN = ("obj",)

TERMS = ["mayer_tf", "mayer_t0", "sum", "sum_last", "int_control", "integral", "integral_t", "integral_one",
         "integral_pc", "integral_vc", "T", "tf", "vg", "pg", "int_T", "int_z"]
DIMS = dict(
    term1=["integral"] + [t for t in TERMS if t != "integral"],
    term2=["mayer_tf", "none", "same", "sum", "integral_t", "int_control"],
    term3=["none", "sum_last", "integral_one", "T"],
    method=["MS", "SS", "DC"],
    intg=["rk", "expl_euler"],
    N=[2, 1, 3],
    M=[1, 2, 3],
    degree=[2, 1, 3, 4],
    scheme=["radau", "legendre"],
    grid=["uniform", "geom", "function", "free", "uniform_lt0"],
    horizon=["fixed", "Tfree", "t0free", "Tparam"],
    state=["vec2", "scalar"],
    pc=[None, "control", "control+"],
    vc=[None, "control", "control+"],
)


def finish(a):
    a = dict(a)
    t1, t2, t3 = a.pop("term1"), a.pop("term2"), a.pop("term3")
    terms = [t1]
    if t2 == "same": terms.append(t1)
    elif t2 != "none": terms.append(t2)
    if t3 != "none": terms.append(t3)
    kw = dict(a)
    if "integral_pc" in terms and not kw["pc"]: kw["pc"] = "control"
    if "integral_vc" in terms and not kw["vc"]: kw["vc"] = "control"
    if "vg" in terms: kw["vg"] = True
    if "pg" in terms: kw["pg"] = "scalar"
    if "int_z" in terms:
        kw["alg"] = True; kw["method"] = "DC"
    d = P.case(**kw)
    d["obj"] = terms
    d["cons"] = [P.con("bc0"), P.con("u_between")]
    return d


def cases(tier):
    k = 3 if tier == "thorough" else 2
    out = []; seen = set()

    def add(a, dev):
        d = finish(a)
        h = explore.sha(d)
        if h not in seen:
            seen.add(h); out.append(dict(d=d, dev=dev))
    for a, dev in explore.deviations(DIMS, k):
        add(a, dev)
    # every term x every method x scheme table
    for t in TERMS:
        for meth, extra in [("MS", dict(intg="rk")), ("MS", dict(intg="expl_euler")), ("SS", dict(intg="rk"))] + \
                [("DC", dict(degree=dg, scheme=sc)) for dg in (1, 2, 3, 4, 5) for sc in ("radau", "legendre")]:
            for g in ("uniform", "geom"):
                a = {n: DIMS[n][0] for n in DIMS}
                a.update(term1=t, method=meth, grid=g, M=2, **extra)
                add(a, ["term1", "method", "grid", "M"] + list(extra))
    return out


def public_paths(case, res, tags):
    """ocp.value(ocp.objective) is the same function as the NLP objective; sol.value(ocp.objective)
    equals the cost the solver minimised (captured at the Opti level) after a real (limited) solve."""
    import casadi as ca
    d = case["d"]
    nlp = res.nlp
    ocp = res.real.ocp
    vios = []
    try:
        e = ocp.value(ocp.objective)
        known = ca.vertcat(nlp.x, nlp.p)
        F = ca.Function("o", [nlp.x, nlp.p], [e], {"allow_free": True})
        if F.has_free():
            vios.append(dict(sig="value:obj:public", tags=tags, detail="value(objective) mentions symbols outside the NLP: %s" % F.get_free()))
        else:
            for w in res.pts[:3]:
                a = float(F(w, nlp.p0)); b = nlp.eval(w)[0]
                if not NL.close(a, b, 1e-9):
                    vios.append(dict(sig="value:obj:public", tags=tags, detail="value(objective)=%g NLP f=%g" % (a, b))); break
    except Exception as ex:
        vios.append(dict(sig="exception:obj:public", tags=tags, detail=str(ex)[:200]))
    if case.get("solve"):
        try:
            opti = nlp.opti
            ocp._method.opti.solver("ipopt", {"ipopt.print_level": 0, "print_time": False, "ipopt.sb": "yes", "ipopt.max_iter": 3})
            sol = ocp.solve_limited()
            xs = np.array(sol.sol.value(opti.x)).reshape(-1)
            fs = float(sol.sol.value(opti.f))
            a = float(sol.value(ocp.objective))
            b = nlp.eval(xs)[0]
            if not (NL.close(a, b, 1e-9) and NL.close(a, fs, 1e-9)):
                vios.append(dict(sig="value:obj:solution", tags=tags, detail="sol.value(objective)=%g, solver f=%g, NLP f(x)=%g" % (a, fs, b)))
        except Exception as ex:
            vios.append(dict(sig="exception:obj:solve", tags=tags, detail=str(ex)[:200]))
    return vios


def run_case(case):
    case = dict(case)
    case["solve"] = len(case.get("dev", [])) <= 1
    out = _trans.run_trans(case, OWN, extra_check=public_paths)
    d = case["d"]
    for v in out["violations"]:
        if any(o.startswith("integral") or o.startswith("int_") and o != "int_control" for o in d["obj"]):
            v["tags"].append("has_integral")
    return out


def describe(tier):
    return dict(
        rule="deviation-bounded enumeration over objective term choices (3 slots, %d term kinds) x method/intg/N/M/degree/scheme/grid/horizon/state/per-interval kinds, plus every term x every scheme table; opti.f compared at generic points with own Mayer/sum/left-sum/quadrature (RK4/Euler stages of the augmented system; classical collocation weights b_j); ocp.value(objective) and sol.value(objective) after a limited real solve compared with the NLP objective" % len(TERMS),
        bound="k<=%d deviations + term x scheme table" % (3 if tier == "thorough" else 2),
        assumptions=["CasADi Function evaluation and Opti bookkeeping are trusted", "generic-point alphabet for the numeric quantifier"])

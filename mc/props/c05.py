"""C05  The NLP objective is the sum of the declared Mayer, sum and integral terms."""
import itertools
import numpy as np
from .. import program as P, explore, nlp as NL
from . import _trans

ID = "C05"
OWN = ("obj",)

TERMS = ["mayer_tf", "mayer_t0", "sum", "sum_last", "int_control", "integral", "integral_t", "integral_one",
         "integral_pc", "integral_pcq", "integral_vc", "T", "tf", "vg", "pg", "int_T", "int_z", "qstate_t", "mayer_T", "sum_T"]
DIMS = dict(
    term1=["integral"] + [t for t in TERMS if t != "integral"],
    term2=["mayer_tf", "none", "same", "sum", "integral_t", "int_control", "qstate_t"],
    term3=["none", "sum_last", "integral_one", "T"],
    method=["MS", "SS", "DC"],
    intg=["rk", "expl_euler"],
    N=[2, 1, 3],
    M=[1, 2, 3],
    degree=[2, 1, 3, 4],
    scheme=["radau", "legendre"],
    grid=["uniform", "geom", "function", "free", "uniform_lt0", "uniform_lT", "geom_lt0_lT"],
    horizon=["fixed", "Tfree", "t0free", "Tparam"],
    state=["vec2", "scalar"],
    pc=[None, "control", "control+", "both"],
    vc=[None, "control", "control+", "both", "two"],
)


def finish(a):
    a = dict(a)
    t1, t2, t3 = a.pop("term1"), a.pop("term2"), a.pop("term3")
    terms = [t1]
    if t2 == "same": terms.append(t1)
    elif t2 != "none": terms.append(t2)
    if t3 != "none": terms.append(t3)
    kw = dict(a)
    if "integral_pc" in terms and not kw["pc"]: kw["pc"] = "control"
    if "integral_pcq" in terms: kw["pc"] = "both"
    if "integral_vc" in terms and not kw["vc"]: kw["vc"] = "control"
    if "vg" in terms: kw["vg"] = True
    if "pg" in terms: kw["pg"] = "scalar"
    if "int_z" in terms:
        kw["alg"] = True; kw["method"] = "DC"
    d = P.case(**kw)
    d["obj"] = terms
    d["cons"] = [P.con("bc0"), P.con("u_between")]
    return d


def cases(tier):
    k = 3 if tier == "thorough" else 2
    out = []; seen = set()

    def add(a, dev):
        d = finish(a)
        h = explore.sha(d)
        if h not in seen:
            seen.add(h); out.append(dict(d=d, dev=dev))
    for a, dev in explore.deviations(DIMS, k):
        add(a, dev)
    # every term x every method x scheme table
    for t in TERMS:
        for meth, extra in [("MS", dict(intg="rk")), ("MS", dict(intg="expl_euler")), ("SS", dict(intg="rk"))] + \
                [("DC", dict(degree=dg, scheme=sc)) for dg in (1, 2, 3, 4, 5) for sc in ("radau", "legendre")]:
            for g in ("uniform", "geom"):
                a = {n: DIMS[n][0] for n in DIMS}
                a.update(term1=t, method=meth, grid=g, M=2, **extra)
                add(a, ["term1", "method", "grid", "M"] + list(extra))
    from ..common import have_networkx
    if have_networkx():
        for t in SPLINE_TERMS:
            for N in (2, 3):
                for g in ("uniform", "geom"):
                    out.append(dict(kind="spline", term=t, N=N, grid=g, dev=[t, "Spline"]))
    return out


def public_paths(case, res, tags):
    """ocp.value(ocp.objective) is the same function as the NLP objective; sol.value(ocp.objective)
    equals the cost the solver minimised (captured at the Opti level) after a real (limited) solve."""
    import casadi as ca
    d = case["d"]
    nlp = res.nlp
    ocp = res.real.ocp
    vios = []
    try:
        e = ocp.value(ocp.objective)
        known = ca.vertcat(nlp.x, nlp.p)
        F = ca.Function("o", [nlp.x, nlp.p], [e], {"allow_free": True})
        if F.has_free():
            vios.append(dict(sig="value:obj:public", tags=tags, detail="value(objective) mentions symbols outside the NLP: %s" % F.get_free()))
        else:
            for w in res.pts[:3]:
                a = float(F(w, nlp.p0)); b = nlp.eval(w)[0]
                if not NL.close(a, b, 1e-9):
                    vios.append(dict(sig="value:obj:public", tags=tags, detail="value(objective)=%g NLP f=%g" % (a, b))); break
    except Exception as ex:
        vios.append(dict(sig="exception:obj:public", tags=tags, detail=str(ex)[:200]))
    if case.get("solve"):
        try:
            opti = nlp.opti
            ocp._method.opti.solver("ipopt", {"ipopt.print_level": 0, "print_time": False, "ipopt.sb": "yes", "ipopt.max_iter": 3})
            sol = ocp.solve_limited()
            xs = np.array(sol.sol.value(opti.x)).reshape(-1)
            fs = float(sol.sol.value(opti.f))
            a = float(sol.value(ocp.objective))
            b = nlp.eval(xs)[0]
            if not (NL.close(a, b, 1e-9) and NL.close(a, fs, 1e-9)):
                vios.append(dict(sig="value:obj:solution", tags=tags, detail="sol.value(objective)=%g, solver f=%g, NLP f(x)=%g" % (a, fs, b)))
        except Exception as ex:
            vios.append(dict(sig="exception:obj:solve", tags=tags, detail=str(ex)[:200]))
    return vios


SPLINE_TERMS = ["at_tf", "at_t0", "sum", "sum_last", "int_control", "integral_one", "integral_sq", "integral_u",
                "sum_t", "sum_last_t", "sum_DT", "at_t0_t"]        # node terms with explicit time / the interval length


def run_spline(case):
    """objective terms under SplineMethod (integrator chain p'=v, v'=u): expected values from the sampled spline
    trajectory (node samples for Mayer / sum / left sum; exact integral of the piecewise polynomial for integral)"""
    import rockit, casadi as ca, sys
    from .. import core
    from .c17 import rockit_grid
    term, N, g = case["term"], case["N"], case["grid"]
    tags = ["method=Spline", "obj=%s" % term, "N=%d" % N, "grid=%s" % g] + (["has_integral"] if term.startswith("integral") else [])
    vios = []
    try:
        ocp = rockit.Ocp(t0=0.3, T=1.9)
        p = ocp.state(); v = ocp.state(); u = ocp.control()
        ocp.set_der(p, v); ocp.set_der(v, u)
        ocp.subject_to(ocp.at_t0(p) == 0.1); ocp.subject_to(-1 <= (u <= 1)); ocp.subject_to(p <= 5)
        e = p * p + 0.3 * v
        obj = {"at_tf": lambda: ocp.at_tf(e), "at_t0": lambda: ocp.at_t0(e), "sum": lambda: ocp.sum(e), "sum_last": lambda: ocp.sum(e, include_last=True),
               "int_control": lambda: ocp.integral(e, grid="control"), "integral_one": lambda: ocp.integral(1 + 0 * p), "integral_sq": lambda: ocp.integral(e),
               "integral_u": lambda: ocp.integral(u * u),
               "sum_t": lambda: ocp.sum(e * (1 + 0.5 * ocp.t)), "sum_last_t": lambda: ocp.sum(e + 0.4 * ocp.t ** 2, include_last=True),
               "sum_DT": lambda: ocp.sum(e * ocp.DT_control), "at_t0_t": lambda: ocp.at_t0(e + 0.4 * ocp.t) + ocp.at_tf(e * ocp.t)}[term]()
        ocp.add_objective(obj)
        ocp.add_objective(0.01 * ocp.at_tf(v * v) + 0.01 * ocp.sum(u * u))      # keeps every coefficient active
        ocp.solver("ipopt", {"ipopt.print_level": 0, "print_time": False, "ipopt.sb": "yes"})
        ocp.method(rockit.SplineMethod(N=N, grid=rockit_grid(g)))
        nlp = NL.Nlp(ocp)
        R = 8
        tn, en = ocp.sample(e, grid="control")
        tr, er = ocp.sample(e, grid="control", refine=R)
        _, ur = ocp.sample(u * u, grid="control", refine=R)
        _, ex = ocp.sample(0.01 * v * v, grid="control")
        _, exu = ocp.sample(0.01 * u * u, grid="control")
        F = ca.Function("s", [nlp.x, nlp.p], [tn, en, tr, er, ur, ex, exu])
        for which in range(3):
            w = NL.generic(nlp.nx, which, 0, lo=-0.8, hi=1.2)
            tn_, en_, tr_, er_, ur_, ex_, exu_ = [np.array(a).reshape(-1) for a in F(w, nlp.p0)]
            dt = np.diff(tn_)
            from .c17 import norm_grid
            if not NL.close(tn_, 0.3 + 1.9 * norm_grid(g, N), 1e-10):
                vios.append(dict(sig="value:obj:spline:grid", tags=tags, detail="node times %s are not the declared grid" % np.round(tn_, 6)))
                break

            def exact_integral(vals):
                tot = 0.0
                s_ = np.linspace(0, 1, R + 1)
                for k in range(N):
                    seg = vals[k * R:(k + 1) * R + 1]
                    pol = np.poly1d(np.polyfit(s_, seg, min(R, 8)))
                    ip = pol.integ()
                    tot += (ip(1.0) - ip(0.0)) * dt[k]
                return tot
            want = {"at_tf": en_[-1], "at_t0": en_[0], "sum": np.sum(en_[:-1]), "sum_last": np.sum(en_), "int_control": np.sum(dt * en_[:-1]),
                    "integral_one": tn_[-1] - tn_[0], "integral_sq": exact_integral(er_), "integral_u": exact_integral(ur_),
                    "sum_t": np.sum(en_[:-1] * (1 + 0.5 * tn_[:-1])), "sum_last_t": np.sum(en_ + 0.4 * tn_ ** 2), "sum_DT": np.sum(en_[:-1] * dt),
                    "at_t0_t": en_[0] + 0.4 * tn_[0] + en_[-1] * tn_[-1]}[term]
            want = want + ex_[-1] + np.sum(exu_[:-1])
            got = nlp.eval(w)[0]
            if not NL.close(got, want, 1e-7):
                vios.append(dict(sig="value:obj:spline", tags=tags, detail="objective with the term %s is %.8g under SplineMethod; the sampled trajectory gives %.8g" % (term, got, want)))
                break
    except Exception as ex_:
        fr = core.rockit_frame(sys.exc_info()[2])
        if fr is None and not isinstance(ex_, (RuntimeError, AssertionError, AttributeError)):
            raise
        vios.append(dict(sig="exception:spline:%s" % (fr or type(ex_).__name__), tags=tags, detail="%s: %s" % (type(ex_).__name__, str(ex_)[:200])))
    return dict(violations=vios, evaluations=3, traces=1, transitions=1, outcome=explore.sha(case), nontrivial=True, sample=case)


def run_case(case):
    if case.get("kind") == "spline":
        return run_spline(case)
    case = dict(case)
    case["solve"] = len(case.get("dev", [])) <= 1
    out = _trans.run_trans(case, OWN, extra_check=public_paths)
    d = case["d"]
    for v in out["violations"]:
        if any(o.startswith("integral") or o.startswith("int_") and o != "int_control" for o in d["obj"]):
            v["tags"].append("has_integral")
    return out


def describe(tier):
    return dict(
        rule="deviation-bounded enumeration over objective term choices (3 slots, %d term kinds) x method/intg/N/M/degree/scheme/grid/horizon/state/per-interval kinds, plus every term x every scheme table; opti.f compared at generic points with own Mayer/sum/left-sum/quadrature (RK4/Euler stages of the augmented system; classical collocation weights b_j); ocp.value(objective) and sol.value(objective) after a limited real solve compared with the NLP objective; SplineMethod: 8 term kinds x N x grid against the sampled spline trajectory (exact piecewise-polynomial integral)" % len(TERMS),
        bound="k<=%d deviations + term x scheme table" % (3 if tier == "thorough" else 2),
        assumptions=["CasADi Function evaluation and Opti bookkeeping are trusted", "generic-point alphabet for the numeric quantifier"])

"""C18  Saving and loading an OCP preserves the problem."""
import copy, os, tempfile, shutil
import numpy as np
from .. import program as P, explore, hist, multi, core, nlp as NL
from . import _trans, c12

ID = "C18"
CHUNK = 2

DIMS = dict(
    method=["MS", "SS", "DC"],
    intg=["rk", "expl_euler"],
    N=[2, 3],
    M=[1, 2],
    degree=[2, 3],
    scheme=["radau", "legendre"],
    grid=["uniform", "geom", "function", "free", "uniform_lt0", "geom_lT", "density"],
    horizon=["fixed", "Tfree", "bothfree", "Tparam", "t0param"],
    state=["vec2", "scalar", "mat22"],
    second=[False, True],
    alg=[False, True],
    pg=[None, "scalar", "mat"],
    pc=[None, "control", "control+"],
    vg=[False, True],
    vc=[None, "control", "control+"],
    scaled=[False, True],
    guesses=[False, True],
    solver=["A", "B"],
    conset=["basic", "offsets", "grids"],
    qobj=[False, True],      # a Lagrange term written through a user-declared quadrature state and at_tf
    cleared=[False, True],   # a draft constraint set dropped through clear_constraints() before the final one is declared
)
POS = ["fresh", "after_query", "after_solve", "after_update", "after_edit", "after_method", "twice"]


def forbid(a):
    return a["pg"] == "mat" and a["state"] != "vec2"


def finish(a):
    a = dict(a)
    scaled, guesses, solver, conset, qobj = a.pop("scaled"), a.pop("guesses"), a.pop("solver"), a.pop("conset"), a.pop("qobj")
    cleared = a.pop("cleared")
    if a["alg"]:
        a["method"] = "DC"
    d = P.case(**a)
    cons = [P.con("bc0"), P.con("u_between")]
    if conset == "offsets":
        cons += [P.con("next"), P.con("prev")]
    if conset == "grids":
        cons += [P.con("x_le", grid="integrator", include_first=False), P.con("xt_le", include_last=False)]
    if d["pc"]: cons.append(P.con("pc_le"))
    if d["vc"]: cons.append(P.con("vc_ge"))
    d["cons"] = cons
    d["obj"] = ["mayer_tf", "integral_t"] + (["vg"] if d["vg"] else []) + (["integral_vc"] if d["vc"] else []) + (["int_z"] if d["alg"] else []) + (["T"] if d["horizon"] in ("Tfree", "bothfree") else [])
    if qobj:
        d["obj"] = d["obj"] + ["qstate_t"]
    if scaled:
        d["scales"] = {"x": 3, "u": 0.25, "der_x": 3}
    if guesses:
        d["init"] = [["x", "const", 0.8], ["u", "expr", "sin"]] if d["state"] == "scalar" else [["u", "expr", "sin"], ["u", "const", 0.3]]
    d["solver"] = solver
    if cleared: d["cleared"] = True
    return d


def cases(tier):
    k = 2
    out = []; seen = set()
    for a, dev in explore.deviations(DIMS, k, forbid=forbid):
        d = finish(a)
        h = explore.sha(d)
        if h in seen: continue
        seen.add(h)
        poss = POS if (len(dev) <= 1 or tier == "thorough") else [POS[(len(out)) % len(POS)], "after_update"]
        for pos in poss:
            out.append(dict(kind="single", d=d, pos=pos, dev=dev))
    # multi-stage programs (stage alphabet of C12), incl. clones
    for names in (("A", "B"), ("D", "E"), ("C", "G"), ("B", "F", "A"), ("G", "G")):
        for via in ("direct", "clone"):
            for pos in ("fresh", "after_solve", "after_edit", "after_update", "after_method"):
                spec = c12.build(names, [["continuity", 0], ["master_var_par"]], [via] * len(names))
                out.append(dict(kind="multi", spec=spec, pos=pos, dev=list(names) + [via]))
    # SplineMethod programs (integrator chains), alone and as a sub-stage next to a sampling method
    from ..common import have_networkx
    if have_networkx():
        for meths in (["Spline"], ["Spline", "MS"], ["DC", "Spline"], ["MS", "nested:DC"], ["MS", "nested:MS", "MS"]):
            for pos in ("fresh", "after_query", "after_solve", "after_edit", "after_method", "twice"):
                out.append(dict(kind="chain", methods=meths, pos=pos, dev=meths))
    return out


def accessors(ocp):
    out = dict(states=[tuple(s.shape) for s in ocp.states], controls=[tuple(s.shape) for s in ocp.controls], algebraics=[tuple(s.shape) for s in ocp.algebraics],
               parameters={k: [tuple(s.shape) for s in v] for k, v in ocp.parameters.items() if len(v)},
               variables={k: [tuple(s.shape) for s in v] for k, v in ocp.variables.items() if len(v)},
               x=tuple(ocp.x.shape), u=tuple(ocp.u.shape), z=tuple(ocp.z.shape), p=tuple(ocp.p.shape), v=tuple(ocp.v.shape),
               method=type(ocp._method).__name__, N=getattr(ocp._method, "N", None), M=getattr(ocp._method, "M", None),
               nstages=len(ocp._stages))
    return out


def save_load(ocp, tmp):
    import rockit
    path = os.path.join(tmp, "ocp.rockit")
    ocp.save(path)
    return rockit.Ocp.load(path)


def run_case(case):
    import sys
    tmp = tempfile.mkdtemp(prefix="c18_")
    vios = []
    tags = ["pos=%s" % case["pos"]]
    pos = case["pos"]
    try:
        hist.SPY.install()
        if case["kind"] == "single":
            d = copy.deepcopy(case["d"])
            tags += _trans.tags_of(d)
            r = hist.declare_spec(copy.deepcopy(d))
            ocp = r.ocp
        elif case["kind"] == "chain":
            import rockit
            meths = case["methods"]
            d = None; m = None
            if len(meths) == 1:
                ocp = rockit.Ocp(t0=0.2, T=1.4)
                c12.chain_stage(ocp, meths[0], True)
            else:
                ocp = rockit.Ocp()
                sts = []
                for i, mth in enumerate(meths):
                    # 'nested:<m>': the stage is a sub-stage of the previous stage (third level below the Ocp)
                    parent = sts[-1][0] if mth.startswith("nested:") else ocp
                    st_ = parent.stage(t0=0.5 * i, T=1.0 + 0.25 * i)
                    sts.append((st_,) + c12.chain_stage(st_, mth.split(":")[-1], i == 0))
                ocp.subject_to(sts[0][0].at_tf(sts[0][1]) == sts[1][0].at_t0(sts[1][1]))
            ocp.solver("ipopt", hist.SOLVER_OPTS["A"])
            r = P.Real(); r.ocp = ocp
            tags += ["m=%s" % x for x in meths]
        else:
            m = multi.declare_multi(case["spec"])
            ocp = m.ocp
            ocp.solver("ipopt", hist.SOLVER_OPTS["A"])
            r = P.Real(); r.ocp = ocp
            d = None
        try:
            if pos == "after_query":
                if d is not None: r.st.sample(r.sym["x"], grid="control")
                else: ocp.jacobian()
            if pos in ("after_solve", "after_update"):
                ocp.solve_limited()
            if pos == "after_edit":
                # an invalidating edit after a solve, then save
                ocp.solve_limited()
                if d is not None:
                    c = P.con("x_le")
                    r.st.subject_to(P.apply_rel(P.CONS["x_le"](P.CA, r.pt, d))); d["cons"].append(c)
                else:
                    ocp.solver("ipopt", hist.SOLVER_OPTS["A"])
            if pos == "after_method":
                # the method is replaced after a solve, then save
                ocp.solve_limited()
                if d is not None:
                    d["M"] = d["M"] + 1          # (N stays: per-interval parameter values keep their shape)
                    r.st.method(P.make_method(d))
                else:
                    import rockit
                    ocp.method(rockit.MultipleShooting(N=2))
            spec_final = None
            if pos == "after_update" and d is None and case["kind"] == "multi":
                # a parameter of a sub-stage gets a new value after the solve
                spec_final = copy.deepcopy(case["spec"])
                for rr, sd in zip(m.reals, spec_final["stages"]):
                    if rr.d["pg"] == "scalar":
                        rr.st.set_value(rr.sym["pg"], 1.7)
                        sd["d"].setdefault("pvals", {})["pg"] = 1.7
            if pos == "after_update" and d is not None:
                if d["pg"] == "scalar":
                    r.st.set_value(r.sym["pg"], -0.8); d["pvals"]["pg"] = -0.8
                r.st.set_initial(r.sym["u"], 0.37); d["init"].append(["u", "const", 0.37])
            acc0 = accessors(ocp)
            ocp2 = save_load(ocp, tmp)
            if pos == "twice":
                ocp2 = save_load(ocp2, tmp)
            acc2 = accessors(ocp2)
            r2 = P.Real(); r2.ocp = ocp2
            obs_loaded = hist.observe(r2)
            obs_orig = hist.observe(r)
            acc1 = accessors(ocp)
        except Exception as e:
            fr = core.rockit_frame(sys.exc_info()[2])
            if fr is None and not isinstance(e, (RuntimeError, AssertionError, AttributeError, TypeError)):
                raise
            vios.append(dict(sig="exception:%s" % (fr or type(e).__name__), tags=tags, detail="%s: %s" % (type(e).__name__, str(e)[:250])))
            return dict(violations=vios, evaluations=1, traces=1, transitions=3, outcome="exc", nontrivial=True, sample=dict(pos=pos, dev=case.get("dev")))
        if "error" in obs_loaded or "error" in obs_orig:
            vios.append(dict(sig="exception:observe", tags=tags, detail=str(obs_loaded.get("error") or obs_orig.get("error"))))
        else:
            dl = hist.obs_equal(obs_loaded, obs_orig)
            if dl:
                vios.append(dict(sig="loaded-differs:" + "+".join(dl), tags=tags, detail="loaded vs original at the solver: %s" % dl))
            if d is None and case["kind"] == "multi" and pos == "after_update":
                m2 = multi.declare_multi(spec_final)
                m2.ocp.solver("ipopt", hist.SOLVER_OPTS["A"])
                rf = P.Real(); rf.ocp = m2.ocp
                fresh = hist.observe(rf)
                df = hist.obs_equal(obs_loaded, fresh) if "error" not in fresh else ["fresh-error"]
                if df:
                    vios.append(dict(sig="loaded-stale:" + "+".join(df), tags=tags, detail="loaded OCP vs a fresh multi-stage OCP with the updated sub-stage parameter value: %s" % df))
            if d is not None:
                fresh = hist.fresh_observation(d)
                if "error" not in fresh:
                    df = hist.obs_equal(obs_orig, fresh)
                    if df:
                        vios.append(dict(sig="original-damaged:" + "+".join(df), tags=tags, detail="original after save vs a fresh OCP of the same specification: %s" % df))
        if acc2 != acc0:
            diff = [k for k in acc0 if acc0[k] != acc2.get(k)]
            vios.append(dict(sig="accessors:" + "+".join(diff), tags=tags, detail="original %s loaded %s" % ({k: acc0[k] for k in diff}, {k: acc2.get(k) for k in diff})))
        if acc1 != acc0:
            vios.append(dict(sig="original-accessors-changed", tags=tags, detail="save changed the original's declared symbols"))
        # symbols of the loaded OCP are usable through the accessors (same order): update both and compare again
        if d is not None and not vios and d["pg"] == "scalar":
            try:
                ocp2.set_value(ocp2.parameters[""][0], 1.3)
                r.st.set_value(r.sym["pg"], 1.3)
                ocp2.set_initial(ocp2.controls[0], 0.21)
                r.st.set_initial(r.sym["u"], 0.21)
                o2 = hist.observe(r2); o1 = hist.observe(r)
                dd = hist.obs_equal(o2, o1)
                if dd:
                    vios.append(dict(sig="loaded-accessor-update-differs:" + "+".join(dd), tags=tags, detail="after set_value/set_initial through accessor symbols: %s" % dd))
                # the same updates on a second loaded copy BEFORE its first transcription
                import rockit
                ocp3 = rockit.Ocp.load(os.path.join(tmp, "ocp.rockit"))
                ocp3.set_value(ocp3.parameters[""][0], 1.3)
                ocp3.set_initial(ocp3.controls[0], 0.21)
                r3 = P.Real(); r3.ocp = ocp3
                o3 = hist.observe(r3)
                dd = hist.obs_equal(o3, o1) if "error" not in o3 else ["error:%s" % o3["error"][:80]]
                if dd:
                    vios.append(dict(sig="loaded-fresh-accessor-update-differs:" + "+".join(d_.split(":")[0] for d_ in dd), tags=tags, detail="set_value/set_initial through accessor symbols of a freshly loaded (never transcribed) OCP: %s" % dd))
            except Exception as e:
                vios.append(dict(sig="exception:accessor-update", tags=tags, detail="%s: %s" % (type(e).__name__, str(e)[:200])))
        oc = explore.sha([obs_loaded if "error" not in obs_loaded else None, [v["sig"] for v in vios]])
        return dict(violations=vios, evaluations=3, traces=2, transitions=4, outcome=oc, nontrivial=True,
                    sample=dict(pos=pos, dev=case.get("dev"), d=_trans.compact(d) if d else (case["spec"]["names"] if "spec" in case else case.get("methods"))))
    finally:
        shutil.rmtree(tmp, ignore_errors=True)


def describe(tier):
    return dict(
        rule="program alphabet over %d feature dimensions (methods, integrators, grids incl. localized/free/density, horizon kinds, state shapes, DAE, global/per-interval parameters and variables, scaling, guesses incl. time expressions, solver option sets, constraint sets with offsets and grid options) at <=2 deviations, plus multi-stage programs (direct and cloned; a sub-stage parameter updated after the solve) and SplineMethod programs (alone and as a sub-stage), nested stages (a sub-stage of a stage) x save position (before any transcription, after a query, after a solve, after post-transcription set_value/set_initial, after a solve followed by an invalidating edit, after a solve followed by a change of method, save-load twice): what the solver receives from the loaded OCP (rows, objective, start, parameters, solver settings) = from the original after saving = from a fresh OCP; accessor lists and shapes equal and in the same order; updates through the loaded OCP's accessor symbols (after its first solve, and on a second loaded copy before any transcription) have the same effect" % len(DIMS),
        bound="k<=2 deviations x %s positions" % ("7" if tier == "thorough" else "2-7"),
        assumptions=["solver spy is 'what the solver receives'", "files are written to a per-case temp dir that is removed"])

"""C01  Shooting transcription encodes exactly the chosen integration scheme."""
import numpy as np
from .. import program as P, explore, reftrans as RT, nlp as NL
from . import _trans

ID = "C01"
OWN = ("dyn", "states:integrator", "states:ss_recursion", "discrete_system")

DIMS = dict(
    method=["MS", "SS"],
    intg=["rk", "expl_euler", "set_next"],
    N=[2, 1, 3],
    M=[1, 2, 3],
    grid=["uniform", "geom", "geom_local", "function", "density", "free", "uniform_lt0", "uniform_lT", "geom_lt0_lT"],
    horizon=["fixed", "Tfree", "t0free", "bothfree", "Tparam", "t0param"],
    state=["vec2", "scalar", "mat22"],
    second=[False, True, "vec"],
    rhs=["nl_t", "nl", "lin_t"],
    control=["one", "none", "two"],
    pg=[None, "scalar", "mat"],
    pc=[None, "control", "control+", "both"],
    vg=[False, True],
    vc=[None, "control", "control+", "both", "two"],
    concat=[False, True],      # dynamics declared with ONE set_der / set_next call on a concatenation of the states
)
CORE = ("method", "intg", "N", "M", "grid", "horizon", "rhs", "pc", "vc")


def forbid(a):
    return a["pg"] == "mat" and a["state"] != "vec2"


def finish(a):
    d = P.case(**a)
    if d["intg"] == "set_next":
        d["obj"] = ["mayer_tf", "sum_last"]
    else:
        d["obj"] = ["mayer_tf", "integral_t"]
    d["cons"] = [P.con("bc0")]
    return d


def cases(tier):
    k = 3 if tier == "thorough" else 2
    out = []
    seen = set()
    for a, dev in explore.deviations(DIMS, k, forbid=forbid):
        d = finish(a)
        h = explore.sha(d)
        if h in seen: continue
        seen.add(h)
        out.append(dict(d=d, dev=dev))
    # declarations through one concatenated set_der / set_next call: every state-shape combination x method x scheme
    for stt in ("vec2", "mat22", "scalar"):
        for sec in (True, "vec"):
            for meth in ("MS", "SS"):
                for ig in ("rk", "expl_euler", "set_next"):
                    b = {n: DIMS[n][0] for n in DIMS}
                    b.update(state=stt, second=sec, concat=True, method=meth, intg=ig, M=2)
                    d = finish(b)
                    h = explore.sha(d)
                    if h in seen: continue
                    seen.add(h)
                    out.append(dict(d=d, dev=["state", "second", "concat", "method", "intg", "M"]))
    if tier == "thorough":
        core = {n: DIMS[n] for n in CORE}
        for a, dev in explore.deviations(core, 4):
            if len(dev) < 4: continue
            b = {n: DIMS[n][0] for n in DIMS}; b.update(a)
            d = finish(b)
            h = explore.sha(d)
            if h in seen: continue
            seen.add(h)
            out.append(dict(d=d, dev=dev))
    return out


def psys_layout(d):
    """layout of the 'p' input of discrete_system: parameters then variables, in declaration order"""
    lay = []
    if d["pg"] == "scalar": lay.append(("pg", 1))
    if d["pg"] == "mat": lay.append(("pg", 4))
    if d["horizon"] == "Tparam": lay.append(("Tp", 1))
    if d["horizon"] == "t0param": lay.append(("t0p", 1))
    if d["pc"]: lay.append(("pc", 1))
    if d["pc"] == "both": lay.append(("pcq", 1))
    if d["vg"]: lay.append(("vg", 1))
    if d["horizon"] in ("Tfree", "bothfree"): lay.append(("Tv", 1))
    if d["horizon"] in ("t0free", "bothfree"): lay.append(("t0v", 1))
    return order_layout(d, lay)


def order_layout(d, lay):
    """stage.p = parameters: global, 'control', 'control+'; stage.v = variables: global, 'control', 'control+'"""
    out = [e for e in lay if e[0] in ("pg", "Tp", "t0p")]
    if d["pc"] in ("control", "both"): out.append(("pc", 1))
    if d["pc"] == "control+": out.append(("pc", 1))
    if d["pc"] == "both": out.append(("pcq", 1))
    out += [e for e in lay if e[0] in ("vg", "Tv", "t0v")]
    if d["vc"] in ("control", "both", "two"): out.append(("vc", 1))
    if d["vc"] == "two": out.append(("vc2", 1))
    if d["vc"] == "control+": out.append(("vc", 1))
    if d["vc"] == "both": out.append(("vcq", 1))
    return out


def check_discrete_system(case, res, tags):
    """ocp.discrete_system() evaluated at (x0,u,T=Delta_k,t0=t_k,p) must equal the reference M-step map"""
    d = case["d"]
    if not res.trajs:
        return []
    F = res.real.ocp.discrete_system()
    tr, q = res.trajs[0]
    lay = psys_layout(d)
    npar = sum(n for _, n in lay)
    if F.size1_in("p") != npar:
        return [dict(sig="value:discrete_system:layout", tags=tags, detail="p has %d entries, declared %d" % (F.size1_in("p"), npar))]
    vios = []
    for k in range(tr.N):
        pv = []
        for name, n in lay:
            if name == "pg": pv += list(np.asarray(tr.pg, dtype=float).reshape(-1, order="F"))
            elif name == "pc": pv.append(tr.pc[k])
            elif name == "vg": pv.append(tr.vg)
            elif name == "vc": pv.append(tr.vc[k])
            elif name == "pcq": pv.append(tr.pcq[k])
            elif name == "vcq": pv.append(tr.vcq[k])
            elif name == "vc2": pv.append(tr.vc2[k])
            elif name == "Tp": pv.append(tr.T)
            elif name == "t0p": pv.append(tr.t0)
            else: pv.append(0.77)
        x0 = tr.X[:, k]
        u = tr.U[:, k] if tr.nu else np.zeros(0)
        out = F(x0=x0, u=u, T=tr.tc[k + 1] - tr.tc[k], t0=tr.tc[k], p=np.array(pv), z0=np.zeros(0))
        xf = np.array(out["xf"]).reshape(-1)
        if not NL.close(xf, tr.Phi[k], 1e-9):
            vios.append(dict(sig="value:discrete_system", tags=tags, detail="interval %d: max diff %g" % (k, np.max(np.abs(xf - tr.Phi[k])))))
            break
    return vios


def run_case(case):
    return _trans.run_trans(case, OWN, extra_check=check_discrete_system)


def describe(tier):
    return dict(
        rule="deviation-bounded product enumeration over %d dimensions (%s); every state declared on the real rockit, NLP rows compared with own RK4/Euler/difference-equation steps at 2 generic points + one excitation per decision coordinate; non-trivial = at least one NLP row or an exception; distinct = distinct digest of all row fingerprints" % (len(DIMS), ",".join(DIMS)),
        bound="k<=%d deviations%s" % ((3, " + k=4 on core dims") if tier == "thorough" else (2, "")),
        assumptions=["CasADi Function evaluation and Opti bookkeeping are trusted", "numeric quantifier closed by a generic-point alphabet (bound, see DESIGN 2.6)"])

"""C02  Direct collocation constraints characterise the collocation polynomial."""
import numpy as np
from .. import program as P, explore, reftrans as RT, nlp as NL
from . import _trans

ID = "C02"
OWN = ("dyn", "time:roots", "readback", "feasible")

DIMS = dict(
    degree=[2, 1, 3, 4, 5],
    scheme=["radau", "legendre"],
    N=[2, 1, 3],
    M=[1, 2, 3],
    grid=["uniform", "geom", "geom_local", "function", "density", "free", "uniform_lt0", "uniform_lT", "geom_lt0_lT"],
    horizon=["fixed", "Tfree", "t0free", "bothfree", "Tparam", "t0param"],
    alg=[False, True],
    state=["vec2", "scalar", "mat22"],
    second=[False, True],
    rhs=["nl_t", "nl", "lin_t"],
    control=["one", "none", "two"],
    pg=[None, "scalar", "mat"],
    pc=[None, "control", "control+", "both"],
    vg=[False, True],
    vc=[None, "control", "control+", "both", "two"],
)


def forbid(a):
    return a["pg"] == "mat" and a["state"] != "vec2"


def finish(a):
    d = P.case(method="DC", **a)
    d["obj"] = ["mayer_tf", "integral_t"] + (["int_z"] if d["alg"] else [])
    d["cons"] = [P.con("bc0")]
    return d


def cases(tier):
    k = 3 if tier == "thorough" else 2
    out = []; seen = set()

    def add(a, dev):
        d = finish(a)
        h = explore.sha(d)
        if h not in seen:
            seen.add(h); out.append(dict(d=d, dev=dev, _timeout=(400 if tier == "thorough" else 90)))
    for a, dev in explore.deviations(DIMS, k, forbid=forbid):
        add(a, dev)
    # full degree x scheme x M x grid-class sub-product on the ODE and DAE base models
    grids = DIMS["grid"] if tier == "thorough" else ["uniform", "geom", "free"]
    Ms = [1, 2, 3] if tier == "thorough" else [1, 2]
    for deg in DIMS["degree"]:
        for sch in DIMS["scheme"]:
            for M in Ms:
                for g in grids:
                    for al in (False, True):
                        a = {n: DIMS[n][0] for n in DIMS}
                        a.update(degree=deg, scheme=sch, M=M, grid=g, alg=al)
                        add(a, ["degree", "scheme", "M", "grid", "alg"])
    return out


def feasible_check(case, res, tags):
    """Direction 2 of the statement: the trajectory of an independent implementation of the same
    collocation scheme (the reference, solved by Newton on its own equations) is feasible for the real
    constraints, and every single-coordinate departure from it is infeasible exactly when the reference says so."""
    d = case["d"]
    if not res.trajs or res.mismatches:
        return []
    nlp = res.nlp
    n = nlp.nx
    w0 = res.pts[0].copy()
    ex0 = np.zeros(nlp.n_extra)
    names = [k for k in ("Xi", "Xr", "Zr") if k in nlp.rb_names]
    q0 = nlp.read(w0, extra=ex0)
    # unknowns: all helper states, algebraic values, and node states except the first
    nx = P.nx_of(d)

    def pack(q):
        v = [np.asarray(q["Xi"]).reshape(nx, -1, order="F")[:, 1:].reshape(-1, order="F"), np.asarray(q["Xr"]).reshape(-1, order="F")]
        if "Zr" in q: v.append(np.asarray(q["Zr"]).reshape(-1))
        return np.concatenate(v)

    def unpack(q, v):
        q = dict(q)
        Xi = np.asarray(q["Xi"], dtype=float).reshape(nx, -1, order="F").copy()
        m = Xi.shape[1] - 1
        Xi[:, 1:] = v[:nx * m].reshape(nx, m, order="F")
        q["Xi"] = Xi
        o = nx * m
        nr = np.asarray(q["Xr"]).size
        q["Xr"] = v[o:o + nr].reshape(np.asarray(q["Xr"]).shape, order="F"); o += nr
        if "Zr" in q:
            q["Zr"] = v[o:].reshape(np.asarray(q["Zr"]).shape)
        N, M = d["N"], d["M"]
        q["X"] = Xi[:, ::M]
        return q

    def resid(v):
        tr = RT.RefTraj(d, unpack(q0, v))
        return np.array([r[2] for r in tr.dyn_rows()])
    v = pack(q0) * 0.3
    for it in range(30):
        r = resid(v)
        if np.max(np.abs(r)) < 1e-12:
            break
        J = np.zeros((r.size, v.size))
        for i in range(v.size):
            vv = v.copy(); vv[i] += 1e-7
            J[:, i] = (resid(vv) - r) / 1e-7
        try:
            v = v - np.linalg.solve(J, r)
        except np.linalg.LinAlgError:
            return []
    else:
        return []    # Newton on the reference equations did not converge: inconclusive, counted nowhere as held
    qs = unpack(q0, v)
    # map the labelled trajectory back to a decision vector through the (affine) public read-backs
    keys = [k for k in ("Xi", "Xr", "Zr") if k in q0]
    stack = lambda q: np.concatenate([np.asarray(q[k]).reshape(-1, order="F") for k in keys])
    b0 = stack(q0)
    A = np.zeros((b0.size, n))
    for i in range(n):
        w = w0.copy(); w[i] += 1.0
        A[:, i] = stack(nlp.read(w, extra=ex0)) - b0
    dw, *_ = np.linalg.lstsq(A, stack(qs) - b0, rcond=None)
    ws = w0 + dw
    if np.max(np.abs(stack(nlp.read(ws, extra=ex0)) - stack(qs))) > 1e-9:
        return [dict(sig="value:feasible:labelling", tags=tags, detail="reference trajectory not representable through the read-backs")]
    idx = [r["match"] for r in res.ref_rows if r["origin"].startswith("dyn") and "match" in r]
    rows = res.rows_real

    def real_dyn(w):
        f, g, lb, ub = nlp.eval(w)
        return np.array([g[rows[j]["idx"]] - lb[rows[j]["idx"]] for j in idx])
    vios = []
    r0 = real_dyn(ws)
    if np.max(np.abs(r0)) > 1e-8:
        vios.append(dict(sig="value:feasible", tags=tags, detail="independent collocation trajectory violates the real dynamic rows by %g" % np.max(np.abs(r0))))
        return vios
    for i in range(n):
        w = ws.copy(); w[i] += 0.21
        real_bad = np.max(np.abs(real_dyn(w))) > 1e-9
        tr = RT.RefTraj(d, nlp.read(w, extra=ex0))
        ref_bad = max(abs(r[2]) for r in tr.dyn_rows()) > 1e-9
        if real_bad != ref_bad:
            vios.append(dict(sig="value:feasible:perturbation", tags=tags, detail="coordinate %d: real infeasible=%s reference infeasible=%s" % (i, real_bad, ref_bad)))
            break
    return vios


def run_case(case):
    out = _trans.run_trans(case, OWN, extra_check=feasible_check)
    return out


def describe(tier):
    return dict(
        rule="deviation-bounded product enumeration over %d dimensions plus the full degree x scheme x M x grid x {ODE,DAE} sub-product; rows compared with defects built from own Legendre/Radau nodes and Lagrange basis; then the reference's own Newton-solved collocation trajectory must be feasible for the real rows and every single-coordinate departure infeasible exactly when the reference says so; non-trivial = has NLP rows; distinct = digest of row fingerprints" % len(DIMS),
        bound="k<=%d deviations + sub-product" % (3 if tier == "thorough" else 2),
        assumptions=["CasADi Function evaluation and Opti bookkeeping are trusted", "generic-point alphabet for the numeric quantifier"])

"""C15  grid='inf' constraints guarantee satisfaction between grid points."""
import itertools
import numpy as np
from .. import explore, core, nlp as NL, reftrans as RT

ID = "C15"
CHUNK = 1

# constraint alphabet: f(x1, x2, dx1, tk) -> (expr, lb, ub) ; polynomial of degree <= 2 in the states
CONS = {
    "x1_le": lambda x1, x2, dx1, tk: (x1, None, 0.9),
    "negx1_le": lambda x1, x2, dx1, tk: (-1.0 * x1, None, 0.7),
    "sum_le": lambda x1, x2, dx1, tk: (x1 + x2, None, 1.1),
    "prod_le": lambda x1, x2, dx1, tk: (x1 * x2, None, 0.6),
    "sq_le": lambda x1, x2, dx1, tk: (x1 * x1, None, 0.8),
    "x1_between": lambda x1, x2, dx1, tk: (x1, -0.6, 0.9),
    # a squared state next to another occurrence of the same state (the state's polynomial object is used twice)
    "pow2_plus_x": lambda x1, x2, dx1, tk: (x1 ** 2 + x1, None, 1.2),
    "der_le": lambda x1, x2, dx1, tk: (dx1, None, 0.9),
    "der_mix": lambda x1, x2, dx1, tk: (dx1 + 0.5 * x2, -1.2, 1.0),
    "inert_t": lambda x1, x2, dx1, tk: (x1 - 0.1 * tk, None, 0.8),
    # a non-spline operand on the left of the state expression
    "c_minus_x": lambda x1, x2, dx1, tk: (0.875 - x1, None, 1.125),
    "c_minus_prod": lambda x1, x2, dx1, tk: (2.0 - x1 * x2 - x1, -0.5, 2.6),
    "c_minus_der": lambda x1, x2, dx1, tk: (0.5 - dx1, None, 1.4),
    # the other ways of writing a one-sided bound: e >= lb, strict e > lb, lb < e, e < ub (FORMS below)
    "x1_ge": lambda x1, x2, dx1, tk: (x1, -0.55, None),
    "x1_gt": lambda x1, x2, dx1, tk: (x1, -0.55, None),
    "x1_lt_rev": lambda x1, x2, dx1, tk: (x1, -0.55, None),
    "prod_gt": lambda x1, x2, dx1, tk: (x1 * x2, -0.5, None),
    "sum_lt": lambda x1, x2, dx1, tk: (x1 + x2, None, 1.1),
    "ub_ge": lambda x1, x2, dx1, tk: (x1, None, 0.9),
}
FORMS = {"x1_ge": "ge", "x1_gt": "gt", "x1_lt_rev": "lt_rev", "prod_gt": "gt", "sum_lt": "lt", "ub_ge": "ub_ge"}


def impose(ocp, con, e, lb, ub, **kw):
    form = FORMS.get(con)
    if form == "ge": ocp.subject_to(e >= lb, grid="inf", **kw)
    elif form == "gt": ocp.subject_to(e > lb, grid="inf", **kw)
    elif form == "lt_rev": ocp.subject_to(lb < e, grid="inf", **kw)
    elif form == "lt": ocp.subject_to(e < ub, grid="inf", **kw)
    elif form == "ub_ge": ocp.subject_to(ub >= e, grid="inf", **kw)
    elif lb is None: ocp.subject_to(e <= ub, grid="inf", **kw)
    else: ocp.subject_to(lb <= (e <= ub), grid="inf", **kw)
BAD = ["sin", "control", "time", "param", "pow15", "expl_euler", "dc_deg3", "cvodes"]


def declare(case, with_inf=True):
    import rockit, casadi as ca
    from rockit.sampling_method import UniformGrid, GeometricGrid, FreeGrid, DensityGrid
    hz = case.get("horizon", "fixed")
    ocp = rockit.Ocp(t0=0.3, T=rockit.FreeTime(1.7) if hz == "Tfree" else 1.7)
    if case.get("prevec"):
        # a vector-valued state declared before the constrained ones (state-to-polynomial bookkeeping by entries, not by states)
        w_ = ocp.state(2)
        ocp.set_der(w_, ca.vertcat(-w_[0], w_[0] - 0.5 * w_[1]))
    x1 = ocp.state(); x2 = ocp.state(); u = ocp.control()
    ocp.set_der(x1, x2)
    ocp.set_der(x2, -x1 + u - 0.3 * x2 * x1)
    ocp.subject_to(ocp.at_t0(x1) == 0.2)
    ocp.subject_to(-2 <= (u <= 2))
    ocp.add_objective(ocp.integral(x1 * x1 + u * u) + ocp.at_tf(x2 * x2))
    sym = dict(x1=x1, x2=x2, u=u)
    bad = case.get("bad")
    if with_inf:
        if bad in ("sin",):
            ocp.subject_to(ca.sin(x1) <= 0.9, grid="inf")
        elif bad == "control":
            ocp.subject_to(x1 + u <= 0.9, grid="inf")
        elif bad == "time":
            ocp.subject_to(x1 * ocp.t <= 0.9, grid="inf")
        elif bad == "pow15":
            ocp.subject_to(x1 ** 1.5 <= 2.0, grid="inf")       # not a polynomial
        elif bad == "param":
            p = ocp.parameter(grid="control"); ocp.set_value(p, np.ones((1, case["N"])))
            ocp.subject_to(x1 * p <= 0.9, grid="inf")
        else:
            e, lb, ub = CONS[case.get("con", "x1_le")](x1, x2, ocp.inf_der(x1), ocp.inf_inert(ocp.t))
            kw = {}
            if case.get("inc") == "no_first": kw["include_first"] = False
            if case.get("inc") == "no_last": kw["include_last"] = False
            impose(ocp, case.get("con", "x1_le"), e, lb, ub, **kw)
    ocp.solver("ipopt", {"ipopt.print_level": 0, "print_time": False, "ipopt.sb": "yes"})
    def _dens():
        tau = ca.MX.sym("tau")
        return DensityGrid(1 + 2 * tau)           # intervals get shorter: every interval is longer than its successor
    g = {"uniform": lambda: UniformGrid(), "geom": lambda: GeometricGrid(3), "free": lambda: FreeGrid(min=0.05, max=2.0), "dens": _dens}[case["grid"]]()
    meth = case["method"]
    N, M = case["N"], case["M"]
    if bad == "expl_euler":
        m = rockit.MultipleShooting(N=N, M=M, intg="expl_euler", grid=g)
    elif bad == "cvodes":
        m = rockit.MultipleShooting(N=N, M=M, intg="cvodes", grid=g)
    elif bad == "dc_deg3":
        m = rockit.DirectCollocation(N=N, M=M, degree=3, grid=g)
    elif meth == "MS":
        m = rockit.MultipleShooting(N=N, M=M, intg="rk", grid=g)
    elif meth == "SS":
        m = rockit.SingleShooting(N=N, M=M, intg="rk", grid=g)
    else:
        m = rockit.DirectCollocation(N=N, M=M, degree=4, grid=g)
    ocp.method(m)
    return ocp, sym


def cases(tier):
    out = []
    Ns = (1, 2, 3)
    Ms = (1, 2, 4) if tier == "thorough" else (1, 2)
    for con in CONS:
        for meth in ("SS", "MS", "DC"):
            for N in Ns:
                for M in Ms:
                    for g in ("uniform", "geom", "free"):
                        for hz in ("fixed", "Tfree"):
                            if tier != "thorough" and hz == "Tfree" and not (N == 2 and M == 2):
                                continue
                            if tier != "thorough" and N == 3 and M == 2 and g == "free":
                                continue
                            out.append(dict(kind="sound", con=con, method=meth, N=N, M=M, grid=g, horizon=hz))
    # a grid whose intervals shrink, and a vector state declared before the constrained states
    for con in ("x1_le", "prod_le", "x1_between", "der_le"):
        for meth in ("SS", "MS", "DC"):
            for N, M in ((2, 1), (3, 2)):
                out.append(dict(kind="sound", con=con, method=meth, N=N, M=M, grid="dens", horizon="fixed"))
                out.append(dict(kind="sound", con=con, method=meth, N=N, M=M, grid="geom", horizon="fixed", prevec=True))
    # include_first / include_last exclude at most single points: the guarantee between grid points is the same
    for con in ("x1_le", "prod_le", "x1_between", "x1_gt"):
        for meth in ("SS", "MS", "DC"):
            for g in ("uniform", "geom"):
                for inc in ("no_first", "no_last"):
                    for N, M in ((2, 2), (3, 1)):
                        out.append(dict(kind="sound", con=con, method=meth, N=N, M=M, grid=g, horizon="fixed", inc=inc))
    for bad in BAD:
        for meth in ("SS", "MS", "DC"):
            if bad in ("expl_euler", "cvodes", "dc_deg3") and meth != "MS":
                continue
            out.append(dict(kind="reject", bad=bad, method=meth, N=2, M=1, grid="uniform"))
    for con in ("x1_le", "prod_le"):
        for g in ("uniform", "geom"):
            out.append(dict(kind="tight", con=con, method="SS", N=2, grid=g))
    return out


def cert_rows(nlpA, nlpB, pts):
    """certificate rows = canonical rows of the NLP with the inf constraint that the twin without it does not have"""
    fA, rA = NL.canon_rows(nlpA, pts)
    fB, rB = NL.canon_rows(nlpB, pts)
    ref = [dict(kind=r["kind"], fp=r["fp"], origin="twin:%d" % r["idx"]) for r in rB]
    missing, extra = NL.match_rows(rA, ref)
    return extra, missing


def step_polys(nlp, ocp, sym, w, N, M):
    """per integrator step: poly1d of x1, x2 in local normalised time s in [0,1] (exact fit of the refined sample,
    the integration scheme's own polynomial has degree <= 4), the step's start time and length, the control interval"""
    import casadi as ca
    R = 8
    if not hasattr(nlp, "_c15"):
        t, X = ocp.sample(ca.vertcat(sym["x1"], sym["x2"]), grid="integrator", refine=R)
        tc = ocp.sample(sym["x1"], grid="control")[0]
        nlp._c15 = ca.Function("s", [nlp.x, nlp.p], [t, X, tc])
    t, X, tc = [np.array(e) for e in nlp._c15(w, nlp.p0)]
    t = t.reshape(-1); X = X.reshape(2, -1, order="F") if X.shape[0] != 2 else X
    tc = tc.reshape(-1)
    out = []
    s = np.linspace(0, 1, R + 1)
    for k in range(N):
        for l in range(M):
            i0 = (k * M + l) * R
            tt = t[i0:i0 + R + 1]
            h = tt[-1] - tt[0]
            # the R points that belong to this step (the next entry is the next step's start state, which equals the
            # polynomial's end only at dynamically feasible points)
            px = [np.poly1d(np.polyfit(s[:R], X[e, i0:i0 + R], 4)) for e in range(2)]
            res = max(np.max(np.abs(px[e](s[:R]) - X[e, i0:i0 + R])) / (1.0 + np.max(np.abs(X[e, i0:i0 + R]))) for e in range(2))
            out.append(dict(k=k, l=l, t0=tt[0], h=h, x1=px[0], x2=px[1], fit=res, tk=tc[k], mag=float(np.max(np.abs(X[:, i0:i0 + R])))))
    return out


def true_slack(case, steps):
    """min over all t of the slack of the declared constraint along the scheme's own polynomial trajectory (exact:
    polynomial arithmetic, extrema at the roots of the derivative and the end points)"""
    worst = np.inf
    where = None
    for st in steps:
        x1, x2 = st["x1"], st["x2"]
        dx1 = x1.deriv() / st["h"] if st["h"] != 0 else x1.deriv() * np.inf
        e, lb, ub = CONS[case["con"]](x1, x2, dx1, st["tk"])
        e = np.poly1d(e) if not isinstance(e, np.poly1d) else e
        cands = [0.0, 1.0]
        d = e.deriv()
        if d.order > 0 or (d.order == 0 and d.coeffs[0] != 0):
            for r in np.atleast_1d(d.roots):
                if abs(r.imag) < 1e-9 and 0 <= r.real <= 1:
                    cands.append(r.real)
        vals = np.array([e(c) for c in cands])
        sl = (ub - np.max(vals)) if ub is not None else np.inf
        if lb is not None:
            sl = min(sl, np.min(vals) - lb)
        if sl < worst:
            worst = sl; where = (st["k"], st["l"])
    return worst, where


def run_sound(case):
    import sys
    tags = ["con=%s" % case["con"], "method=%s" % case["method"], "N=%d" % case["N"], "M=%d" % case["M"], "grid=%s" % case["grid"], "horizon=%s" % case["horizon"]] + (["inc=%s" % case["inc"]] if case.get("inc") else []) + (["prevec"] if case.get("prevec") else [])
    vios = []
    try:
        ocpA, sym = declare(case, True)
        ocpB, _ = declare(case, False)
        nlpA = NL.Nlp(ocpA); nlpB = NL.Nlp(ocpB)
    except Exception as e:
        fr = core.rockit_frame(sys.exc_info()[2])
        if fr is None and not isinstance(e, (RuntimeError, AssertionError)):
            raise
        return dict(violations=[dict(sig="exception:%s" % (fr or type(e).__name__), tags=tags, detail="%s: %s" % (type(e).__name__, str(e)[:200]))], evaluations=1, traces=1, transitions=1, outcome="exc", nontrivial=True, sample=case)
    n = nlpA.nx
    if nlpB.nx != n:
        return dict(violations=[dict(sig="harness:twin-dims", tags=tags, detail="twin has other variables")], evaluations=1, traces=2, transitions=1, outcome="x", nontrivial=False, sample=case)
    pts = NL.alphabet(n, seed=0, full=False) + [NL.generic(n, 2, 0, lo=-0.5, hi=0.9)]
    cert, missing = cert_rows(nlpA, nlpB, pts)
    if missing:
        vios.append(dict(sig="value:cert:twin-rows-missing", tags=tags, detail="%d rows of the problem without the inf constraint disappear when it is added" % len(missing)))
    if not cert:
        vios.append(dict(sig="silent:no-certificate", tags=tags, detail="grid='inf' constraint accepted but it adds no NLP rows"))
        return dict(violations=vios, evaluations=1, traces=2, transitions=1, outcome="nocert", nontrivial=True, sample=case)
    idx = [(r["idx"], r["side"]) for r in cert]

    def cert_slack(w):
        f, g, lb, ub = nlpA.eval(w)
        out = []
        for i, side in idx:
            if side == "eq":
                out.append(-abs(g[i] - lb[i]))
            elif side == "lb":
                out.append(g[i] - lb[i])
            else:
                out.append(ub[i] - g[i])
        return min(out)
    N, M = case["N"], case["M"]
    # a certificate-feasible start: small states, positive interval lengths / horizon
    # time coordinates (free grid / free T) must stay positive along the rays: keep them at their start values
    import casadi as ca
    nlpA.set_readbacks({"tc": ocpA.sample(sym["x1"], grid="control")[0], "T": ocpA.value(ocpA.T), "t0": ocpA.value(ocpA.t0)})
    q0 = nlpA.read(nlpA.x0)
    tco = []
    for i in range(n):
        w1 = nlpA.x0.copy(); w1[i] += 0.3
        q1 = nlpA.read(w1)
        if any(not np.allclose(q1[k_], q0[k_], rtol=0, atol=1e-12) for k_ in q0):
            tco.append(i)
    # a certificate-feasible start from a fixed candidate list (the certificate may only be satisfiable away from 0)
    cands = [nlpA.x0.copy()]
    for c_ in (0.0, -0.8, 0.8, -0.3, 0.3, -1.5, 1.5):
        w_ = np.full(n, c_); w_[tco] = nlpA.x0[tco]
        cands.append(w_)
    base = cands[0]
    for w_ in cands:
        if cert_slack(w_) >= 0:
            base = w_; break
    evals = 0
    nchecks = 0
    worst_gap = -np.inf
    if cert_slack(base) < -1e-12:
        return dict(violations=vios, evaluations=1, traces=2, transitions=1, outcome="nostart", nontrivial=False, counts=dict(inconclusive=1), sample=case)
    dirs = []
    for q in range(3):
        dirs.append(NL.generic(n, q, 0, lo=-1.0, hi=1.0))
    for i in range(n):
        for sgn in (1.0, -1.0):
            e = np.zeros(n); e[i] = sgn
            dirs.append(e)
    for dvec in dirs:
        dvec = dvec.copy()
        dvec[tco] = 0.0            # do not walk the time grid into negative interval lengths
        if not np.any(dvec):
            continue
        # first crossing of the certificate boundary along the ray (march, then 50 halvings)
        lo, hi = 0.0, None
        a = 0.05
        for _ in range(9):
            if cert_slack(base + a * dvec) < 0:
                hi = a; break
            lo = a; a *= 2
        if hi is None:
            alphas = [lo, lo / 2]
        else:
            for _ in range(50):
                mid = 0.5 * (lo + hi)
                if cert_slack(base + mid * dvec) >= 0: lo = mid
                else: hi = mid
            alphas = [lo, lo / 2, 0.9 * lo]
        for al in alphas:
            w = base + al * dvec
            if cert_slack(w) < 0:
                continue
            steps = step_polys(nlpA, ocpA, sym, w, N, M)
            if not np.all(np.isfinite([s_["fit"] for s_ in steps])) or max(s_["mag"] for s_ in steps) > 1e3:
                continue          # the ray left the range of well-conditioned arithmetic: not an observation
            if max(s_["fit"] for s_ in steps) > 1e-8:
                vios.append(dict(sig="value:trajectory-not-degree-4", tags=tags, detail="refined sample is not a degree-4 polynomial per integrator step (residual %g)" % max(s_["fit"] for s_ in steps)))
                break
            sl, where = true_slack(case, steps)
            evals += 1; nchecks += 1
            worst_gap = max(worst_gap, -sl)
            if sl < -1e-8:
                vios.append(dict(sig="unsound", tags=tags, detail="all certificate rows are satisfied (min slack %g) but the constrained expression exceeds its bound by %g inside control interval %d, integrator step %d" % (cert_slack(w), -sl, where[0], where[1])))
                break
        else:
            continue
        break
    return dict(violations=vios, evaluations=max(evals, 1), traces=2, transitions=len(dirs), outcome=explore.sha([case, round(worst_gap, 6)]), nontrivial=nchecks > 0,
                counts=dict(boundary_points=nchecks, cert_rows=len(cert)), sample=dict(case=case, cert_rows=len(cert), boundary_points=nchecks))


def run_reject(case):
    import sys
    from .c20 import Block, SolverCalled
    tags = ["bad=%s" % case["bad"], "method=%s" % case["method"]]
    Block.install(); Block.calls = 0; Block.armed = True
    try:
        ocp, sym = declare(case, True)
        ocp.solve()
        res = "silent"
    except SolverCalled:
        res = "solver_called"
    except Exception as e:
        fr = core.rockit_frame(sys.exc_info()[2])
        if fr is None and not isinstance(e, (RuntimeError, AssertionError)):
            Block.armed = False
            raise        # an exception of the harness itself must not be read as a rejection
        res = "raised"
    finally:
        Block.armed = False
    vios = []
    if res != "raised":
        vios.append(dict(sig="accepted:%s" % case["bad"], tags=tags, detail="a grid='inf' constraint for which no guarantee can be produced (%s) was transcribed and handed to the solver" % case["bad"]))
    return dict(violations=vios, evaluations=1, traces=1, transitions=1, outcome=explore.sha([case, res]), nontrivial=True, sample=case)


def run_tight(case):
    """the conditions become tight as M grows: along the same physical ray (SingleShooting: same decision variables
    for every M) the true slack left at the certificate boundary does not grow from M=1 to M=4"""
    tags = ["con=%s" % case["con"], "grid=%s" % case["grid"], "tight"]
    gaps = {}
    for M in (1, 2, 4):
        c = dict(case, kind="sound", M=M, horizon="fixed")
        ocpA, sym = declare(c, True); ocpB, _ = declare(c, False)
        nlpA = NL.Nlp(ocpA); nlpB = NL.Nlp(ocpB)
        n = nlpA.nx
        pts = NL.alphabet(n, seed=0, full=False) + [NL.generic(n, 2, 0, lo=-0.5, hi=0.9)]
        cert, _ = cert_rows(nlpA, nlpB, pts)
        idx = [(r["idx"], r["side"]) for r in cert]

        def cert_slack(w):
            f, g, lb, ub = nlpA.eval(w)
            return min((g[i] - lb[i]) if side == "lb" else (ub[i] - g[i]) for i, side in idx)
        gl = []
        for q in range(3):
            dvec = NL.generic(n, q, 0, lo=0.2, hi=1.0)
            lo, hi = 0.0, None; a = 0.05
            for _ in range(14):
                if cert_slack(a * dvec) < 0: hi = a; break
                lo = a; a *= 2
            if hi is None: continue
            for _ in range(50):
                mid = 0.5 * (lo + hi)
                if cert_slack(mid * dvec) >= 0: lo = mid
                else: hi = mid
            sl, _ = true_slack(c, step_polys(nlpA, ocpA, sym, lo * dvec, c["N"], M))
            gl.append(sl)
        gaps[M] = gl
    vios = []
    if all(len(gaps[M]) == len(gaps[1]) and gaps[M] for M in gaps):
        for q in range(len(gaps[1])):
            if gaps[4][q] > gaps[1][q] + 1e-6:
                vios.append(dict(sig="not-tightening", tags=tags, detail="slack left at the certificate boundary grows with M: %s" % {M: round(gaps[M][q], 5) for M in gaps}))
                break
    return dict(violations=vios, evaluations=9, traces=6, transitions=3, outcome=explore.sha([case, [[round(v, 5) for v in gaps[M]] for M in gaps]]), nontrivial=True,
                sample=dict(case=case, gaps={str(M): [round(v, 5) for v in gaps[M]] for M in gaps}))


def run_case(case):
    return {"sound": run_sound, "reject": run_reject, "tight": run_tight}[case["kind"]](case)


def describe(tier):
    return dict(
        rule="polynomial constraint alphabet (12 forms incl. constant-minus-state forms of degree 1..2 in two scalar states: x, -x, sum, product, square, two-sided, inf_der, inf_der mixed, inf_inert(t)) x {SingleShooting rk, MultipleShooting rk, DirectCollocation degree 4} x N in 1..3 x M x {uniform, geometric, free} grid x {fixed, free} horizon; certificate rows = rows the twin without the constraint does not have; for every direction of the alphabet (3 generic + both signs of every unit vector) the first crossing of the certificate boundary is located by 50 halvings on the real rows, and there (and at 0.9 and 0.5 of it) the exact minimum over all times of the constraint's slack along the scheme's own degree-4 polynomial (polynomial arithmetic on the refine=8 sample, extrema at derivative roots) must be >= 0; programs without a guarantee (sin, control / time / per-interval-parameter dependence, expl_euler, collocation degree 3, cvodes) must raise before the solver is called; slack left at the boundary must not grow from M=1 to M=4 (SingleShooting rays)",
        bound="N<=3, M<=%d, all unit directions" % (4 if tier == "thorough" else 2),
        assumptions=["the scheme's own trajectory is read through sample(grid='integrator', refine=8) (C08 decides that it is the polynomial)", "rays start at the solver's starting point (certificate-feasible) and keep the time coordinates fixed"])

"""C09  A parametric OCP is the family of OCPs with the values written in."""
import copy
import numpy as np
from .. import program as P, explore, core, nlp as NL, hist
from . import _trans

ID = "C09"
CHUNK = 4
OWN = ("dyn", "path", "point", "obj", "time", "extra", "states", "readback", "param", "reject")

DIMS = dict(
    pg=["scalar", "mat", None],
    pc=["control", "control+", "both", None],
    horizon=["fixed", "Tparam", "t0param"],
    use=["rhs", "bound", "objective", "initial"],
    pgval=["a", "b", "one"],
    pgtype=["float", "int", "np0d", "npscalar", "np1", "np11", "dm", "list"],
    pcval=["A", "B", "e0", "e1", "eN"],
    pgmval=["default", "e00", "e10", "e01", "e11"],
    hval=["default", "other"],
    method=["MS", "SS", "DC"],
    N=[2, 1, 3],
    M=[1, 2],
    grid=["uniform", "geom"],
    degree=[2, 3],
)


def pvals_of(a, d):
    pv = {}
    n = d["N"] + (1 if d["pc"] == "control+" else 0)
    if d["pg"] == "scalar":
        pv["pg"] = {"a": 0.45, "b": -0.8, "one": 1.0}[a["pgval"]]
        if a.get("pgtype", "float") != "float":
            pv["pg_type"] = a["pgtype"]
            if a["pgtype"] == "int":
                pv["pg"] = 1.0          # (an integer-valued number for the python-int form)
    if d["pg"] == "mat":
        if a["pgmval"] != "default":
            E = np.zeros((2, 2)); E[int(a["pgmval"][1]), int(a["pgmval"][2])] = 1.0
            pv["pgm"] = E.tolist()
    if d["pc"]:
        v = a["pcval"]
        if v == "A": tab = hist.pc_value(d, 0)
        elif v == "B": tab = hist.pc_value(d, 1)
        else:
            tab = [0.0] * n
            k = {"e0": 0, "e1": min(1, n - 1), "eN": n - 1}[v]
            tab[k] = 1.0
        pv["pc"] = tab
    if a["hval"] == "other":
        if d["horizon"] == "Tparam": pv["TT"] = 2.7
        if d["horizon"] == "t0param": pv["T0"] = -0.3
    return pv


def finish(a):
    kw = {k: a[k] for k in ("pg", "pc", "horizon", "method", "N", "M", "grid", "degree")}
    d = P.case(state="vec2", **kw)
    cons = [P.con("bc0")]; obj = ["mayer_tf", "integral"]
    use = a["use"]
    if use == "bound":
        if d["pc"]: cons.append(P.con("pc_le"))
        if d["pc"]: cons.append(P.con("next_pc"))
        if d["pc"] == "both": cons.append(P.con("next_pcq"))
        if d["pg"] == "scalar": cons.append(P.con("pg_le"))
        if d["pg"] == "scalar": cons.append(P.con("x_between_pg", scale=3))      # scaled, two-sided, parametric upper bound
    if use == "objective":
        if d["pc"]: obj.append("integral_pc")
        if d["pg"] == "scalar": obj.append("pg")
    if use == "initial" and d["pg"] == "scalar":
        cons = [P.con("bc0_pg")]
    d["cons"] = cons; d["obj"] = obj
    d["pvals"] = pvals_of(a, d)
    return d


# (a time-dependent guess of the state is part of the base: with the horizon a parameter, its node times follow the value)
HBASE = P.case(state="vec2", pg="scalar", pc="control+", horizon="Tparam", cons=[P.con("bc0")], obj=["mayer_tf", "integral"], method="MS", N=2,
               init=[["x", "expr", "lin"]])
HALPHA = [
    ["set_value", "pg", "a"], ["set_value", "pg", "b"], ["set_value", "pc", "A"], ["set_value", "pc", "B"],
    ["query", "sample"], ["solve"], ["subject_to", P.con("pc_le")], ["method", "DC2"],
    ["set_value_cat", 1.3, 2.6],      # one call on a concatenation of two parameters (global + horizon)
]


# second history base: both kinds of per-interval parameter, a grid with its own time variables, guesses in between
# (the control already has a guess when the history starts: a later guess must survive a still later set_value)
HBASE2 = P.case(state="vec2", pg="scalar", pc="both", horizon="fixed", grid="uniform_lT", cons=[P.con("bc0")], obj=["mayer_tf", "integral_pcq"], method="MS", N=2,
                init=[["u", "const", -0.2]])
HALPHA2 = [
    ["set_value", "pg", "a"], ["set_value", "pg", "b"], ["set_value", "pcq", 0.9], ["set_value", "pc", "B"],
    ["set_initial", "u", "const", 0.3], ["query", "sample"], ["solve"], ["subject_to", P.con("pc_le")],
]


def cases(tier):
    k = 3 if tier == "thorough" else 2
    out = []; seen = set()
    for a, dev in explore.deviations(DIMS, k):
        d = finish(a)
        h = explore.sha(d)
        if h in seen: continue
        seen.add(h)
        out.append(dict(kind="product", d=d, dev=dev))
    depth = 4 if tier == "thorough" else 3
    for h in explore.histories(list(range(len(HALPHA))), depth):
        out.append(dict(kind="history", ops=[HALPHA[i] for i in h]))
    for h in explore.histories(list(range(len(HALPHA2))), depth):
        if h:
            out.append(dict(kind="history", base=2, ops=[HALPHA2[i] for i in h]))
    # plugin integrators inside the shooting methods (no reference model of their arithmetic: the parametric OCP
    # is compared with the same OCP declared with the values written in, on the real code)
    for meth in ("MS", "SS"):
        for ig in ("cvodes", "collocation"):
            for pg in ("scalar", "mat"):
                for pc in (None, "control", "control+", "both"):
                    for hz in ("fixed", "Tparam", "t0param"):
                        for M in (1, 2):
                            if M == 2 and not (pc in (None, "both") and hz != "t0param"):
                                continue
                            d = P.case(state="vec2", pg=pg, pc=pc, horizon=hz, method=meth, intg=ig, N=2, M=M, rhs="nl_t")
                            d["cons"] = [P.con("bc0")]; d["obj"] = ["mayer_tf", "integral"] + (["integral_pc"] if pc else [])
                            d["pvals"] = {"pg": 0.45} if pg == "scalar" else {}
                            out.append(dict(kind="plugin_twin", d=d, dev=[meth, ig, pg, str(pc), hz]))
    # vector-valued per-interval parameters: n rows x one column per interval (also when n equals the number of columns)
    for meth in ("MS", "SS", "DC"):
        for n in (2, 3):
            for N in (2, 3):
                for il in (False, True):
                    for when in ("before", "after"):
                        out.append(dict(kind="pc_vector", method=meth, n=n, N=N, include_last=il, when=when))
    return out


def run_pc_vector(case):
    """column k of the value matrix of a vector-valued per-interval parameter applies on control interval k: read back
    through sample() at the solver's parameter values, and used by the dynamics (explicit Euler step written out)"""
    import rockit, casadi as ca, sys
    meth, n, N, il, when = case["method"], case["n"], case["N"], case["include_last"], case["when"]
    tags = ["pc_vector", "method=%s" % meth, "n=%d" % n, "N=%d" % N, "include_last=%s" % il, when] + (["square"] if n == N + (1 if il else 0) else [])
    vios = []
    cols = N + (1 if il else 0)
    V = 0.3 + 0.1 * np.arange(n * cols).reshape(n, cols) + 0.05 * np.arange(n).reshape(n, 1) ** 2       # not symmetric
    V0 = -V[::-1, ::-1] - 0.2
    c = np.array([1.0, -2.0, 0.5])[:n]
    try:
        ocp = rockit.Ocp(t0=0.2, T=1.3)
        x = ocp.state(); u = ocp.control()
        p = ocp.parameter(n, grid="control", include_last=il)
        ocp.set_der(x, ca.dot(ca.DM(c), p) + u)
        ocp.subject_to(ocp.at_t0(x) == 0.1)
        ocp.add_objective(ocp.integral(x * x + u * u))
        ocp.solver("ipopt", {"ipopt.print_level": 0, "print_time": False, "ipopt.sb": "yes"})
        ocp.method({"MS": lambda: rockit.MultipleShooting(N=N, M=1, intg="expl_euler"), "SS": lambda: rockit.SingleShooting(N=N, M=1, intg="expl_euler"),
                    "DC": lambda: rockit.DirectCollocation(N=N, M=1, degree=1)}[meth]())
        if when == "before":
            ocp.set_value(p, V)
        else:
            ocp.set_value(p, V0)
            ocp.sample(x, grid="control")        # first transcription
            ocp.set_value(p, V)
        rb = {"p": ocp.sample(p, grid="control" if il else "control-")[1], "x": ocp.sample(x, grid="control")[1], "u": ocp.sample(u, grid="control-")[1],
              "t": ocp.sample(x, grid="control")[0]}
        nlp = NL.Nlp(ocp, rb)
        w = NL.generic(nlp.nx, 0, 0)
        q = nlp.read(w)
        got = np.asarray(q["p"], dtype=float).reshape(n, -1, order="F")
        if got.shape != V.shape or not NL.close(got, V, 1e-12):
            vios.append(dict(sig="value:pc-vector:sample", tags=tags, detail="value matrix %s given to a %d-row per-interval parameter; sample() reads %s" % (np.round(V, 3).tolist(), n, np.round(got, 3).tolist())))
        if meth == "SS" and not vios:
            # explicit Euler, M=1: x_{k+1} = x_k + h (c . V[:,k] + u_k) is what SingleShooting reports as states
            xs = np.asarray(q["x"], dtype=float).reshape(-1); us = np.asarray(q["u"], dtype=float).reshape(-1); ts = np.asarray(q["t"], dtype=float).reshape(-1)
            for k in range(N):
                want = xs[k] + (ts[k + 1] - ts[k]) * (float(c @ V[:, k]) + us[k])
                if abs(want - xs[k + 1]) > 1e-10:
                    vios.append(dict(sig="value:pc-vector:dynamics", tags=tags, detail="interval %d propagates to %g; with column %d of the value matrix it is %g" % (k, xs[k + 1], k, want))); break
    except Exception as e:
        fr = core.rockit_frame(sys.exc_info()[2])
        if fr is None and not isinstance(e, (RuntimeError, AssertionError, AttributeError)):
            raise
        vios.append(dict(sig="exception:pc-vector:%s" % (fr or type(e).__name__), tags=tags, detail="%s: %s" % (type(e).__name__, str(e)[:200])))
    return dict(violations=vios, evaluations=2, traces=1, transitions=2, outcome=explore.sha(case), nontrivial=True, sample=case)


def run_plugin_twin(case):
    import sys
    d = case["d"]
    tags = _trans.tags_of(d) + ["plugin_twin"]
    vios = []
    try:
        r1 = P.declare(d); nlp1 = NL.Nlp(r1.ocp)
        r2 = P.declare(d, const_params=True); nlp2 = NL.Nlp(r2.ocp)
        if nlp1.nx != nlp2.nx:
            vios.append(dict(sig="value:const-twin:nvars", tags=tags, detail="%d vs %d decision variables" % (nlp1.nx, nlp2.nx)))
        else:
            pts = [NL.generic(nlp1.nx, q, core.get_seed() if hasattr(core, "get_seed") else 0, lo=0.2, hi=1.1) for q in range(3)]
            f1, ra = NL.canon_rows(nlp1, pts)
            f2, rb = NL.canon_rows(nlp2, pts)
            if not NL.close(f1, f2, 1e-6):
                vios.append(dict(sig="value:const-twin:obj", tags=tags, detail="objective %s vs constants-written-in %s" % (f1[:2], f2[:2])))
            ref = [dict(kind=r["kind"], fp=r["fp"], origin="const:%d" % r["idx"]) for r in rb]
            missing, extra = NL.match_rows(ra, ref, tol=1e-6)
            extra = [e for e in extra if not NL.vacuous(e)]
            if missing or extra:
                vios.append(dict(sig="value:const-twin:rows", tags=tags, detail="%d rows of the constant OCP not found, %d rows only in the parametric NLP" % (len(missing), len(extra))))
    except Exception as e:
        fr = core.rockit_frame(sys.exc_info()[2])
        if fr is None and not isinstance(e, (RuntimeError, AssertionError)):
            raise
        vios.append(dict(sig="exception:plugin_twin:%s" % (fr or type(e).__name__), tags=tags, detail="%s: %s" % (type(e).__name__, str(e)[:200])))
    return dict(violations=vios, evaluations=3, traces=2, transitions=2, outcome=explore.sha([_trans.compact(d), [v["sig"] for v in vios]]), nontrivial=True, sample=dict(d=_trans.compact(d)))


def const_twin(case, res, tags):
    """differential on the real code: the same OCP with the values written in as constants"""
    d = case["d"]
    if not (d["pg"] or d["horizon"] in ("Tparam", "t0param")):
        return []
    nlp = res.nlp
    vios = []
    try:
        r2 = P.declare(d, const_params=True)
        nlp2 = NL.Nlp(r2.ocp)
    except Exception as e:
        return [dict(sig="exception:const-twin", tags=tags, detail="%s: %s" % (type(e).__name__, str(e)[:200]))]
    if nlp2.nx != nlp.nx:
        return [dict(sig="value:const-twin:nvars", tags=tags, detail="%d vs %d decision variables" % (nlp.nx, nlp2.nx))]
    pts = res.pts[:6] + [nlp.x0]
    f1, r1 = NL.canon_rows(nlp, pts)
    f2, r2_ = NL.canon_rows(nlp2, pts)
    if not NL.close(f1, f2, 1e-9):
        vios.append(dict(sig="value:const-twin:obj", tags=tags, detail="objective %s vs constants-written-in %s" % (f1[:2], f2[:2])))
    ref = [dict(kind=r["kind"], fp=r["fp"], origin="const:%d" % r["idx"]) for r in r2_]
    missing, extra = NL.match_rows(r1, ref)
    extra = [e for e in extra if not NL.vacuous(e)]
    if missing or extra:
        vios.append(dict(sig="value:const-twin:rows", tags=tags, detail="%d rows of the constant OCP not found, %d rows only in the parametric NLP" % (len(missing), len(extra))))
    if not NL.close(nlp.x0, nlp2.x0, 1e-12):
        vios.append(dict(sig="value:const-twin:x0", tags=tags, detail="starting points differ"))
    return vios


def run_case(case):
    if case["kind"] == "product":
        return _trans.run_trans(case, OWN, extra_check=const_twin)
    if case["kind"] == "plugin_twin":
        return run_plugin_twin(case)
    if case["kind"] == "pc_vector":
        return run_pc_vector(case)
    out = hist.run_history(HBASE2 if case.get("base") == 2 else HBASE, case["ops"])
    tags = ["base=2"] if case.get("base") == 2 else []
    seen_tr = False
    for op in case["ops"]:
        if op[0] in ("query", "solve"): seen_tr = True
        else: tags.append(("post:" if seen_tr else "pre:") + op[0])
    for v in out["violations"]:
        v["tags"] = sorted(set(tags))
    return dict(violations=out["violations"], evaluations=3, traces=1, transitions=len(case["ops"]) + 1,
                outcome=explore.sha([out.get("obs"), [v["sig"] for v in out["violations"]]]), nontrivial=True,
                sample=dict(ops=case["ops"]))


def describe(tier):
    return dict(
        rule="(d) vector-valued per-interval parameters (2-3 rows x N / N+1 columns, square tables included) x method x {before, after a first transcription}: sample() reads the value matrix column by column and SingleShooting's Euler recursion uses column k on interval k; (c) plugin integrators (cvodes, collocation) inside MS / SS x parameter kinds x parametric horizons x M: parametric NLP = the NLP of the same OCP with the global / horizon values written in (rows and objective at 3 generic points, 1e-6); (a) deviation-bounded enumeration over parameter kind (global scalar / 2x2 matrix / per-interval / per-interval+include_last / parametric T / parametric t0) x place of use (rhs, bound, objective, initial condition) x value alphabet (two generic values, unit tables per column, unit matrices per element) x method/N/M/grid/degree: all NLP data vs the reference evaluated with the declared values, and vs the same OCP declared on the real code with the values written in as constants; (b2) the same over {set_value of a global, a plain per-interval and (one scalar) an include_last per-interval parameter, a guess of the control, query, solve, subject_to} on a grid with its own time variables; (b) every history of length <= d over {set_value(p,a|b), set_value(q,A|B), set_value(vertcat(p,T),..), query, solve, subject_to, method}: next solve = fresh OCP with the final values (whole parameter vector compared)",
        bound="k<=%d deviations; history depth %d" % ((3, 4) if tier == "thorough" else (2, 3)),
        assumptions=["CasADi Function evaluation and Opti bookkeeping are trusted", "generic-point alphabet", "per-interval parameters have no constant form: they are compared with the reference only"])

"""Shared glue for the transcription-content properties (C01, C02, C04, C05, C06, ...):
one explored state = one case compared row-for-row with the reference; each property reports
only the mismatch origins it owns."""
import hashlib
import numpy as np
from .. import program as P, core


def tags_of(d):
    t = ["method=%s" % d["method"], "intg=%s" % d["intg"], "grid=%s" % (d["grid"] if isinstance(d["grid"], str) else d["grid"][0]),
         "horizon=%s" % d["horizon"], "N=%d" % d["N"], "M=%d" % d["M"]]
    if d["method"] == "DC":
        t += ["degree=%d" % d["degree"], "scheme=%s" % d["scheme"]]
    kind, opts = P.grid_kind_opts(d)
    t.append("gridkind=%s" % kind)
    if kind in ("function", "density", "dense_edges"):
        t.append("grid_by_normalized_only")
    for k in ("localize_t0", "localize_T"):
        if opts.get(k):
            t.append(k)
    if "min" in opts or "max" in opts:
        t.append("minmax")
    for c in d["cons"]:
        t.append("con=%s" % c["c"])
        if c.get("grid"):
            t.append("congrid=%s" % c["grid"])
    for o in d["obj"]:
        t.append("obj=%s" % o)
    return t


def owned(origin, owners):
    return any(origin == o or origin.startswith(o + ":") or origin.startswith(o) for o in owners)


def outcome_hash(res):
    h = hashlib.sha1()
    h.update(repr((res.nw, res.n_rows, sorted((m["origin"], m["cls"]) for m in res.mismatches), bool(res.exception))).encode())
    fps = getattr(res, "fp_digest", None)
    if fps:
        h.update(fps.encode())
    return h.hexdigest()[:12]


def run_trans(case, owners, expect_reject=None, full_alphabet=True, extra_check=None):
    """case: dict with key 'd' (the program) and 'dev' (deviated dimension names)."""
    d = case["d"]
    res = core.compare_case(d, full_alphabet=full_alphabet, return_rows=True)
    vios = []
    foreign = 0
    tags = tags_of(d)
    if res.exception is not None:
        vios.append(dict(sig="exception:%s" % (res.exception["frame"] or res.exception["type"]), tags=tags,
                         detail="%s: %s" % (res.exception["type"], res.exception["msg"])))
    else:
        grouped = {}
        for m in res.mismatches:
            if owned(m["origin"], owners) or m["origin"] == "nonfinite":
                base = ":".join(m["origin"].split(":")[:2])
                grouped.setdefault((base, m["cls"]), []).append(m)
            else:
                foreign += 1
        for (base, cls), lst in sorted(grouped.items()):
            vios.append(dict(sig="%s:%s" % (cls, base), tags=tags, detail="%d rows/entries; first: %s %s" % (len(lst), lst[0]["origin"], lst[0]["info"])))
        if extra_check is not None and getattr(res, "nlp", None) is not None:
            vios += extra_check(case, res, tags) or []
    # digest of the real rows' fingerprints: distinct outcomes / non-triviality are measured, not assumed
    if getattr(res, "rows_real", None) is not None:
        hh = hashlib.sha1()
        for r in res.rows_real:
            hh.update(np.round(r["fp"], 9).tobytes())
        hh.update(np.round(res.f_real, 9).tobytes())
        res.fp_digest = hh.hexdigest()
    out = dict(violations=vios, evaluations=res.n_points, traces=1, transitions=max(1, len(case.get("dev", []))) ,
               outcome=outcome_hash(res), nontrivial=(res.n_rows > 0 or res.exception is not None),
               counts=dict(foreign_mismatches=foreign, rows_compared=res.n_rows, exceptions=int(res.exception is not None)),
               sample=dict(d=compact(d), dev=case.get("dev"), nw=res.nw, rows=res.n_rows, points=res.n_points))
    return out


def compact(d):
    """only the non-default dimensions (for samples / replays)"""
    return {k: v for k, v in d.items() if P.DEFAULT.get(k, None) != v}

"""C03  Discretised dynamics and integrals converge to the continuous-time model."""
import itertools, math
import numpy as np
from .. import explore, core, nlp as NL, reftrans as RT
from .c08 import feasible

ID = "C03"
CHUNK = 2

T0, TT = 0.4, 1.6
Q = [0.8, -0.5, 0.3, 0.6]     # per-interval parameter values (used as piecewise-constant input)


def grid_obj(name):
    from rockit.sampling_method import UniformGrid, GeometricGrid
    return {"uniform": UniformGrid(), "geom": GeometricGrid(2)}[name]


def grid_nodes(name, N):
    n = RT.normalized("uniform" if name == "uniform" else "geom", {"g": 2}, N)
    return T0 + TT * np.array(n)


def make_method(sch, N, M, g):
    import rockit
    kind = sch[0]
    gr = grid_obj(g)
    if kind == "MS": return rockit.MultipleShooting(N=N, M=M, intg=sch[1], grid=gr)
    if kind == "SS": return rockit.SingleShooting(N=N, M=M, intg=sch[1], grid=gr)
    if kind == "DC": return rockit.DirectCollocation(N=N, M=M, degree=sch[1], scheme=sch[2], grid=gr)
    if kind == "SSp": return rockit.SingleShooting(N=N, M=M, intg=sch[1], intg_options=sch[2], grid=gr)
    raise KeyError(kind)


def order_of(sch):
    if sch[0] in ("MS", "SS"):
        return 1 if sch[1] == "expl_euler" else 4
    if sch[0] == "DC":
        return 2 * sch[1] - 1 if sch[2] == "radau" else 2 * sch[1]
    return None


def stability(sch, z):
    """textbook stability function R(z) of the scheme (matrix argument allowed)"""
    z = np.atleast_2d(np.asarray(z, dtype=float))
    I = np.eye(z.shape[0])
    if sch[0] in ("MS", "SS"):
        if sch[1] == "expl_euler":
            return I + z
        R = I.copy(); term = I.copy()
        for j in range(1, 5):
            term = term @ z / j; R = R + term
        return R
    d = sch[1]
    # Pade approximants of exp: (d-1,d) for Radau IIA, (d,d) for Gauss-Legendre
    kk, mm = (d - 1, d) if sch[2] == "radau" else (d, d)

    def pade(k, m):
        num = np.zeros_like(I); den = np.zeros_like(I)
        for j in range(k + 1):
            c = math.factorial(k + m - j) * math.factorial(k) / (math.factorial(k + m) * math.factorial(j) * math.factorial(k - j))
            num = num + c * np.linalg.matrix_power(z, j)
        for j in range(m + 1):
            c = math.factorial(k + m - j) * math.factorial(m) / (math.factorial(k + m) * math.factorial(j) * math.factorial(m - j))
            den = den + c * np.linalg.matrix_power(-z, j)
        return np.linalg.solve(den, num)
    return pade(kk, mm)


def quad_error_constant(sch):
    """(scheme quadrature of t^p on [0,1]) - 1/(p+1), p = classical order"""
    p = order_of(sch)
    if sch[0] in ("MS", "SS"):
        return -0.5 if sch[1] == "expl_euler" else (1 / 6 * (4 * 0.5 ** 4 + 1.0) - 1 / 5)
    col = RT.colloc(sch[1], sch[2])
    return float(np.sum(col["b"] * col["tau"] ** p) - 1.0 / (p + 1))


SCHEMES = [("MS", "rk"), ("MS", "expl_euler"), ("SS", "rk"), ("SS", "expl_euler")] + [("DC", dg, sc) for dg in (1, 2, 3, 4, 5) for sc in ("radau", "legendre")]
PLUGINS = [("SSp", "cvodes", {"abstol": 1e-10, "reltol": 1e-10}), ("SSp", "collocation", {}), ("SSp", "idas", {"abstol": 1e-10, "reltol": 1e-10})]
FLOWS = ["riccati", "xcos", "linear_q", "rotation", "dae"]


def cases(tier):
    out = []
    Ms = (1, 2, 4, 8)
    for sch in SCHEMES:
        for g in ("uniform", "geom"):
            for N in ((2,) if tier != "thorough" else (1, 2, 3)):
                for M in ((1, 2, 3) if tier != "thorough" else (1, 2, 3, 4)):
                    out.append(dict(kind="stability", sch=list(sch), grid=g, N=N, M=M))
                    out.append(dict(kind="exactness", sch=list(sch), grid=g, N=N, M=M))
            for flow in FLOWS:
                if flow == "dae" and sch[0] != "DC":
                    continue
                out.append(dict(kind="convergence", sch=list(sch), grid=g, N=2, flow=flow))
    for sch in PLUGINS:
        for flow in ("riccati", "xcos", "linear_q", "dae"):
            if (flow == "dae") != (sch[1] == "idas"):
                continue
            for M in (1, 2):
                for g in ("uniform", "geom"):
                    out.append(dict(kind="plugin", sch=[sch[0], sch[1], sch[2]], grid=g, N=2, M=M, flow=flow))
    for flow in ("riccati", "xcos", "linear_q"):
        for g in ("uniform", "geom"):
            out.append(dict(kind="simulator", flow=flow, grid=g, N=2, M=2))
    return out


# ---- closed-form flows -------------------------------------------------------------------

def flow_exact(flow, x0, t0, t, q=0.0, p=0.7):
    """exact state at time t, and the exact integral of the model's integrand over [t0,t]"""
    if flow == "riccati":       # x' = -x^2, L = x^2
        x = x0 / (1 + x0 * (t - t0)); return x, x0 - x
    if flow == "xcos":          # x' = x cos t, L = x cos t
        x = x0 * math.exp(math.sin(t) - math.sin(t0)); return x, x - x0
    if flow == "linear_q":      # x' = -p x + q t, L = x
        a = lambda s: q * (s / p - 1 / p ** 2)
        C = x0 - a(t0)
        x = C * math.exp(-p * (t - t0)) + a(t)
        integ = C * (1 - math.exp(-p * (t - t0))) / p + q * ((t ** 2 - t0 ** 2) / (2 * p) - (t - t0) / p ** 2)
        return x, integ
    if flow == "dae":           # x' = -z, 0 = z - x(1+t), L = z
        x = x0 * math.exp(-(t - t0) - (t ** 2 - t0 ** 2) / 2); return x, x0 - x
    raise KeyError(flow)


def build(flow, sch, N, M, g, x0):
    import rockit, casadi as ca
    ocp = rockit.Ocp(t0=T0, T=TT)
    sym = {}
    if flow == "rotation":
        x = ocp.state(2)
        A = np.array([[-0.3, 1.1], [-1.1, -0.3]])
        ocp.set_der(x, ca.mtimes(ca.DM(A), x))
        L = ca.sumsqr(x)
    else:
        x = ocp.state()
        if flow == "riccati":
            ocp.set_der(x, -x * x); L = x * x
        elif flow == "xcos":
            ocp.set_der(x, x * ca.cos(ocp.t)); L = x * ca.cos(ocp.t)
        elif flow == "linear_q":
            qp = ocp.parameter(grid="control"); pp = ocp.parameter()
            ocp.set_value(qp, np.array(Q[:N]).reshape(1, -1)); ocp.set_value(pp, 0.7)
            ocp.set_der(x, -pp * x + qp * ocp.t); L = x
        elif flow == "dae":
            z = ocp.algebraic()
            ocp.set_der(x, -z); ocp.add_alg(z - x * (1 + ocp.t)); L = z
        elif flow.startswith("lam"):
            lam = float(flow[3:]); ocp.set_der(x, lam * x); L = x
        elif flow.startswith("tpow"):
            m = int(flow[4:]); ocp.set_der(x, ocp.t ** m + 0 * x); L = ocp.t ** m + 0 * x
    ocp.subject_to(ocp.at_t0(x) == x0)
    ocp.add_objective(ocp.integral(L))
    ocp.solver("ipopt", {"ipopt.print_level": 0, "print_time": False, "ipopt.sb": "yes"})
    ocp.method(make_method(sch, N, M, g))
    return ocp, x


def transition(flow, sch, N, M, g, x0):
    """states at the control nodes and the value of ocp.integral at the dynamically feasible point with x(t0)=x0"""
    ocp, x = build(flow, sch, N, M, g, x0)
    nlp = NL.Nlp(ocp, {"X": ocp.sample(x, grid="control")[1], "tc": ocp.sample(x, grid="control")[0]})
    w = np.zeros(nlp.nx) + 0.1
    if sch[0] == "SSp":
        # plugin integrators: never differentiate through them; SingleShooting is explicit in x(t0)
        f, g_, lb, ub = nlp.eval(w)
        # the only equality row is x(t0) == x0: linear in the first variable(s)
        eq = [i for i in range(nlp.ng) if np.isfinite(lb[i]) and abs(lb[i] - ub[i]) < 1e-13]
        for it in range(3):
            f, g_, lb, ub = nlp.eval(w)
            r = np.array([g_[i] - lb[i] for i in eq])
            J = np.zeros((len(eq), nlp.nx))
            for i in range(nlp.nx):
                w1 = w.copy(); w1[i] += 1.0
                g1 = nlp.eval(w1)[1]
                J[:, i] = np.array([g1[k] - g_[k] for k in eq])
            w = w - np.linalg.lstsq(J, r, rcond=None)[0]
        resid = float(np.max(np.abs([nlp.eval(w)[1][i] - lb[i] for i in eq])))
    else:
        w, resid = feasible(nlp, w, iters=40)
    q = nlp.read(w, extra=nlp.extra0)
    return q["X"], q["tc"].reshape(-1), nlp.eval(w)[0], resid


def run_stability(case):
    sch, g, N, M = tuple(case["sch"]), case["grid"], case["N"], case["M"]
    tags = ["sch=%s" % (sch,), "grid=%s" % g, "N=%d" % N, "M=%d" % M]
    vios = []
    tcr = grid_nodes(g, N)
    evals = 0
    for lam in (-1.3, 0.6, -4.0):
        X, tc, integ, resid = transition("lam%g" % lam, sch, N, M, g, 0.9)
        X = X.reshape(-1)
        if resid > 1e-9:
            continue
        for k in range(N):
            R = stability(sch, [[lam * (tcr[k + 1] - tcr[k]) / M]])[0, 0] ** M
            evals += 1
            if abs(X[k + 1] - R * X[k]) > 1e-9 * (1 + abs(X[k])):
                vios.append(dict(sig="value:stability", tags=tags, detail="x'=%gx over interval %d: x_end/x_start = %.12g, textbook R(z)^M = %.12g" % (lam, k, X[k + 1] / X[k], R)))
                break
        if vios: break
    if not vios:
        X, tc, integ, resid = transition("rotation", sch, N, M, g, np.array([0.9, -0.4]))
        X = X.reshape(2, -1, order="F")
        A = np.array([[-0.3, 1.1], [-1.1, -0.3]])
        if resid <= 1e-9:
            for k in range(N):
                R = np.linalg.matrix_power(stability(sch, A * (tcr[k + 1] - tcr[k]) / M), M)
                evals += 1
                if not NL.close(X[:, k + 1], R @ X[:, k], 1e-9):
                    vios.append(dict(sig="value:stability:matrix", tags=tags, detail="x'=Ax over interval %d: %s vs R(A dt)^M x = %s" % (k, X[:, k + 1], R @ X[:, k])))
                    break
    return dict(violations=vios, evaluations=max(evals, 1), traces=4, transitions=4, outcome=explore.sha(case), nontrivial=evals > 0, sample=case)


def run_exactness(case):
    sch, g, N, M = tuple(case["sch"]), case["grid"], case["N"], case["M"]
    tags = ["sch=%s" % (sch,), "grid=%s" % g, "N=%d" % N, "M=%d" % M]
    vios = []
    p = order_of(sch)
    tcr = grid_nodes(g, N)
    hs = np.repeat(np.diff(tcr) / M, M)
    evals = 0
    for m in sorted(set([0, 1, max(p - 1, 0), p])):
        X, tc, integ, resid = transition("tpow%d" % m, sch, N, M, g, 0.25)
        X = X.reshape(-1)
        if resid > 1e-9:
            continue
        exact = 0.25 + (tcr[-1] ** (m + 1) - tcr[0] ** (m + 1)) / (m + 1)
        exact_int = exact - 0.25
        err_expected = 0.0 if m < p else quad_error_constant(sch) * float(np.sum(hs ** (p + 1)))
        evals += 2
        for name, got, ex in (("state", X[-1], exact), ("integral", integ, exact_int)):
            if abs((got - ex) - err_expected) > 1e-9 * (1 + abs(ex)):
                vios.append(dict(sig="value:exactness:%s" % name, tags=tags + ["m=%d" % m], detail="x'=t^%d (classical order %d): %s error %.3e, the scheme's quadrature error is %.3e" % (m, p, name, got - ex, err_expected)))
        if vios: break
    return dict(violations=vios, evaluations=max(evals, 1), traces=4, transitions=4, outcome=explore.sha(case), nontrivial=evals > 0, sample=case)


def flow_errors(flow, sch, N, M, g):
    x0 = 0.8
    X, tc, integ, resid = transition(flow, sch, N, M, g, x0)
    X = X.reshape(-1)
    tcr = grid_nodes(g, N)
    # piecewise exact propagation (per-interval parameter)
    x = x0; I = 0.0
    for k in range(N):
        xn, dI = flow_exact(flow, x, tcr[k], tcr[k + 1], q=Q[k])
        I += dI; x = xn
    return abs(X[-1] - x), abs(integ - I), resid, float(np.max(np.abs(tc - tcr)))


def run_convergence(case):
    sch, g, N, flow = tuple(case["sch"]), case["grid"], case["N"], case["flow"]
    tags = ["sch=%s" % (sch,), "grid=%s" % g, "flow=%s" % flow]
    vios = []
    p = order_of(sch)
    if flow == "rotation":
        return dict(violations=[], evaluations=1, traces=1, transitions=1, outcome="skip", nontrivial=False, sample=case)
    errs = {}; ierrs = {}
    for M in (1, 2, 4, 8):
        e, ie, resid, tg = flow_errors(flow, sch, N, M, g)
        if resid > 1e-8:
            return dict(violations=[], evaluations=1, traces=4, transitions=4, outcome="infeasible", nontrivial=False, counts=dict(inconclusive=1), sample=case)
        errs[M] = e; ierrs[M] = ie
    floor = 1e-11
    for name, E in (("state", errs), ("integral", ierrs)):
        seq = [E[M] for M in (1, 2, 4, 8)]
        for a, b in zip(seq[:-1], seq[1:]):
            if b > a * 1.05 + floor:
                vios.append(dict(sig="value:convergence:%s:not-decreasing" % name, tags=tags, detail="error against the closed-form %s grows with M: %s" % (name, ["%.2e" % v for v in seq])))
                break
        if E[8] > 1e-10 and E[4] < 1e-2 and not vios:
            obs = math.log2(E[4] / E[8])
            if obs < p - 0.6:
                vios.append(dict(sig="value:convergence:%s:order" % name, tags=tags, detail="observed order %.2f from M=4->8, classical order %d (errors %s)" % (obs, p, ["%.2e" % v for v in seq])))
    return dict(violations=vios, evaluations=8, traces=4, transitions=4, outcome=explore.sha([case, ["%.1e" % errs[M] for M in errs]]), nontrivial=True,
                sample=dict(case=case, state_errors=["%.2e" % errs[M] for M in errs], integral_errors=["%.2e" % ierrs[M] for M in ierrs]))


def run_plugin(case):
    sch, g, N, M, flow = tuple(case["sch"][:2]) + (case["sch"][2],), case["grid"], case["N"], case["M"], case["flow"]
    tags = ["sch=%s" % (sch[:2],), "grid=%s" % g, "flow=%s" % flow, "M=%d" % M]
    e, ie, resid, tg = flow_errors(flow, sch, N, M, g)
    tol = 1e-10 if sch[1] in ("cvodes", "idas") else None
    vios = []
    if sch[1] == "collocation":
        # CasADi's collocation integrator has no tolerance: one element per rockit step (fixed-step scheme);
        # decided by refinement: halving the step must reduce the error at least 8-fold (order >= 3)
        e2, ie2, _, _ = flow_errors(flow, sch, N, 2 * M, g)
        limit = 5e-3
        if (e2 > e / 8 + 1e-10) or (ie2 > ie / 8 + 1e-10):
            vios.append(dict(sig="value:plugin:collocation-order", tags=tags, detail="collocation integrator: errors %.2e -> %.2e (state), %.2e -> %.2e (integral) when M doubles" % (e, e2, ie, ie2)))
    else:
        limit = 50 * tol * 1e2   # absolute + relative tolerance on values of order one, accumulated over the steps
    if e > limit or ie > limit:
        vios.append(dict(sig="value:plugin", tags=tags, detail="%s: state error %.2e, integral error %.2e (limit %.1e)" % (sch[1], e, ie, limit)))
    return dict(violations=vios, evaluations=2, traces=1, transitions=1, outcome=explore.sha([case, "%.0e" % e]), nontrivial=True, sample=dict(case=case, err=e, ierr=ie))


def run_simulator(case):
    """ocp.sys_simulator and ocp.discrete_system describe the same flow (both against the closed form)"""
    flow, g, N, M = case["flow"], case["grid"], case["N"], case["M"]
    tags = ["flow=%s" % flow, "grid=%s" % g]
    ocp, x = build(flow, ("MS", "rk"), N, 8, g, 0.8)
    vios = []
    F = ocp.discrete_system()
    sim = ocp.sys_simulator(intg="cvodes", intg_options={"abstol": 1e-11, "reltol": 1e-11})
    tcr = grid_nodes(g, N)
    for k in range(N):
        xe, _ = flow_exact(flow, 0.8, tcr[k], tcr[k + 1], q=Q[k])
        if flow == "linear_q":
            pF = np.array([0.7, Q[k]])      # stage.p: global parameter then per-interval parameter
            ps = np.array([0.7, Q[k]])
        else:
            pF = np.zeros(0); ps = np.zeros(0)
        xf = float(np.array(F(x0=0.8, u=np.zeros(0), T=tcr[k + 1] - tcr[k], t0=tcr[k], p=pF, z0=np.zeros(0))["xf"]).reshape(-1)[0])
        xs = float(np.array(sim(x=0.8, u=np.zeros(0), p=ps, t0=tcr[k], dt=tcr[k + 1] - tcr[k], z_initial_guess=np.zeros(0))["xf"]).reshape(-1)[0])
        if abs(xs - xe) > 1e-8:
            vios.append(dict(sig="value:simulator", tags=tags, detail="sys_simulator over interval %d gives %.10g, closed form %.10g" % (k, xs, xe))); break
        if abs(xf - xe) > 1e-5:
            vios.append(dict(sig="value:discrete_system", tags=tags, detail="discrete_system (rk, M=8) over interval %d gives %.10g, closed form %.10g" % (k, xf, xe))); break
    return dict(violations=vios, evaluations=2 * N, traces=1, transitions=2, outcome=explore.sha(case), nontrivial=True, sample=case)


def run_case(case):
    return {"stability": run_stability, "exactness": run_exactness, "convergence": run_convergence, "plugin": run_plugin, "simulator": run_simulator}[case["kind"]](case)


def describe(tier):
    return dict(
        rule="every scheme (MS/SS x rk/expl_euler, DirectCollocation degree 1..5 x radau/legendre) x grid x N x M: (i) x'=lambda x (3 lambdas) and x'=Ax (rotation-contraction): interval map = textbook stability function R(z)^M (1+z, RK4 polynomial, Pade (d-1,d) / (d,d)); (ii) x'=t^m and integral(t^m) for m in {0,1,p-1,p}: exact for m<p and error = the scheme's own quadrature error constant x sum h^(p+1) for m=p (pins the classical order from both sides); (iii) closed-form flows (Riccati, x cos t, linear with per-interval input, index-1 DAE) x M in {1,2,4,8}: state and integral errors non-increasing, observed order >= p-0.6; (iv) CasADi integrators cvodes / idas / collocation against the closed forms (M in {1,2}); (v) sys_simulator and discrete_system against the closed forms. States come from dynamically feasible points of the real NLP (Newton on the real rows; SingleShooting evaluation for plugin integrators)",
        bound="M in {1,2,4,8}; N<=%d" % (3 if tier == "thorough" else 2),
        assumptions=["'vanishes as M grows' is decided for M<=8 and by exact order conditions, not beyond", "plugin integrators are never differentiated (their sensitivities fail in this CasADi build)"])

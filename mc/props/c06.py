"""C06  The time grid is the declared partition of [t0, t0+T]."""
import itertools
import numpy as np
from .. import program as P, explore, core, reftrans as RT, nlp as NL
from . import _trans

ID = "C06"
OWN = ("time",)
MIN, MAX = 0.35, 1.1

GRIDBASE = {
    "uniform": ("uniform", {}),
    "geom2": ("geom", {"g": 2}),
    "geom4": ("geom", {"g": 4}),
    "geom2_local": ("geom", {"g": 2, "local": True}),
    "geom2_global": ("geom", {"g": 2, "local": False}),      # geom2 / geom4 leave local= to the library default
    "function": ("function", {}),
    "density_lin": ("density", {"dens": "lin"}),
    "density_sq": ("density", {"dens": "sq"}),
    "dense_edges": ("dense_edges", {}),
    "dense_edges_m3": ("dense_edges", {"multiplier": 3, "edge_frac": 0.2}),
    "free": ("free", {}),
}
OPTS = {
    "plain": {},
    "lt0": {"localize_t0": True},
    "lT": {"localize_T": True},
    "lt0_lT": {"localize_t0": True, "localize_T": True},
    "minmax": {"min": MIN, "max": MAX},
    "lT_minmax": {"localize_T": True, "min": MIN, "max": MAX},
    "min_only": {"min": MIN},
    "max_only": {"max": MAX},
}


def grid_of(base, opt):
    k, o = GRIDBASE[base]
    o = dict(o); o.update(OPTS[opt])
    return [k, o]


def mk(base, opt, N, M, horizon, method):
    d = P.case(method=method, N=N, M=M, horizon=horizon, grid=grid_of(base, opt), state="scalar", rhs="nl_t")
    d["obj"] = ["mayer_tf", "integral_t"]
    d["cons"] = [P.con("bc0")]
    return d


def cases(tier):
    out = []
    if tier == "thorough":
        Ns, Ms = [1, 2, 3, 4, 5, 6, 7, 8], [1, 2, 3, 4]
        hz = ["fixed", "Tfree", "t0free", "bothfree", "Tparam", "t0param"]
        bases = list(GRIDBASE)
    else:
        Ns, Ms = [1, 2, 3, 5], [1, 2]
        hz = ["fixed", "Tfree", "bothfree", "t0param"]
        bases = list(GRIDBASE)
    for base in bases:
        for opt in OPTS:
            for N in Ns:
                if base.startswith("density") and N > 5 and tier != "thorough":
                    continue
                for M in Ms:
                    for h in hz:
                        for meth in ("MS", "SS", "DC"):
                            if tier != "thorough" and (N, M) not in ((1, 1), (2, 2), (3, 1), (5, 2), (2, 1)):
                                continue
                            out.append(dict(kind="single", d=mk(base, opt, N, M, h, meth), dev=[base, opt]))
    # two OCPs declared one after the other in the same process (grid objects must not share state)
    dens = ["density_lin", "density_sq", "dense_edges", "dense_edges_m3", "geom2", "geom4", "function", "uniform"]
    for a, b in itertools.permutations(dens, 2):
        for N in ((3,) if tier != "thorough" else (2, 3, 4)):
            out.append(dict(kind="pair", d=mk(a, "plain", N, 1, "fixed", "MS"), d2=mk(b, "plain", N, 1, "fixed", "MS"), dev=[a, b]))
    return out


def lengths_expected_ok(L, T, opts):
    mn = opts.get("min", 0); mx = opts.get("max", np.inf)
    return bool(np.all(L >= mn - 1e-12) and np.all(L <= mx + 1e-12))


def semantics(case, res, tags):
    """Formulation-independent check of the grid's own constraints (the real rows that depend on time
    coordinates only): their solution set is exactly the declared partition family, and min/max are enforced."""
    d = case["d"]
    nlp = res.nlp
    kind, opts = P.grid_kind_opts(d)
    N = d["N"]
    tco = list(res.time_coords)
    trows = res.time_rows
    vios = []
    w0 = res.pts[0].copy()
    ex = np.zeros(nlp.n_extra)
    hz = d["horizon"]
    Tfree = hz in ("Tfree", "bothfree"); t0free = hz in ("t0free", "bothfree")

    def times(w):
        q = nlp.read(w, extra=ex)
        return np.concatenate([q["tc"].reshape(-1), q["T"].reshape(-1)[:1], q["t0"].reshape(-1)[:1]])

    def trow_vals(w):
        f, g, lb, ub = nlp.eval(w)
        eq = []; iq = []
        for r in trows:
            i = r["idx"]
            if r["kind"] == "eq": eq.append(g[i] - lb[i])
            elif r["side"] == "lb": iq.append(g[i] - lb[i])
            else: iq.append(ub[i] - g[i])
        return np.array(eq), np.array(iq)
    b0 = times(w0)
    e0, i0 = trow_vals(w0)
    nt = len(tco)
    A = np.zeros((b0.size, nt)); Je = np.zeros((e0.size, nt)); Ji = np.zeros((i0.size, nt))
    for c, i in enumerate(tco):
        w = w0.copy(); w[i] += 1.0
        A[:, c] = times(w) - b0
        e1, i1 = trow_vals(w)
        Je[:, c] = e1 - e0; Ji[:, c] = i1 - i0
    # affinity of times and time rows in the time coordinates (second point)
    if nt:
        dw = NL.generic(nt, 3, 0, lo=-0.7, hi=0.9)
        w = w0.copy(); w[tco] += dw
        e1, i1 = trow_vals(w)
        if not (NL.close(times(w), b0 + A @ dw, 1e-9) and NL.close(e1, e0 + Je @ dw, 1e-9) and NL.close(i1, i0 + Ji @ dw, 1e-9)):
            return [dict(sig="harness:time-rows-not-affine", tags=tags, detail="grid rows are not affine in the time coordinates")]
    n = RT.normalized(kind, opts, N)
    # (1) declared partitions are representable and satisfy the grid's own constraints
    Tvals = [0.6, 1.9, 3.1] if Tfree else [d["TT"]]
    t0vals = [-0.4, 0.7] if t0free else [d["T0"]]

    def solve_for(target):
        """time coordinates realising the target times; auxiliary (unlabelled) grid variables are chosen
        so that the grid's equality rows hold whenever that is possible"""
        if nt == 0:
            return w0, float(np.max(np.abs(b0 - target)))
        if Je.size:
            AA = np.vstack([A, Je]); bb = np.concatenate([target - b0, -e0])
            dw, *_ = np.linalg.lstsq(AA, bb, rcond=None)
            if np.max(np.abs(AA @ dw - bb)) < 1e-10:
                w = w0.copy(); w[tco] += dw
                return w, float(np.max(np.abs(times(w) - target)))
        dw, *_ = np.linalg.lstsq(A, target - b0, rcond=None)
        w = w0.copy(); w[tco] += dw
        return w, float(np.max(np.abs(times(w) - target)))
    labelled = RT.grid_is_labelled(d)
    TOL = {"density": 5e-6, "dense_edges": 3e-5}.get(kind, 1e-9)     # density grids are integrated numerically on both sides
    if n is not None or kind == "free":
        for T in Tvals:
            for t0 in t0vals:
                if kind == "free":
                    # any partition with the declared end points and lengths inside [min,max]
                    mn = opts.get("min", 0.0); mx = min(opts.get("max", np.inf), T)
                    Ls = np.array([1.0 + 0.37 * ((k * 7) % 5) for k in range(N)]); Ls = Ls / Ls.sum() * T
                    if "min" in opts or "max" in opts:
                        Ls = np.clip(Ls, mn, mx)
                        if abs(Ls.sum() - T) > 1e-12:
                            continue      # no admissible partition for this T within the bounds
                    tcs = t0 + np.concatenate([[0.0], np.cumsum(Ls)])
                else:
                    tcs = t0 + T * np.array(n)
                target = np.concatenate([tcs, [T, t0]])
                w, err = solve_for(target)
                if err > TOL:
                    vios.append(dict(sig="value:time:partition", tags=tags, detail="declared partition T=%g t0=%g not reachable through the time variables (err %g)" % (T, t0, err)))
                    return vios
                e, iq = trow_vals(w)
                ok = lengths_expected_ok(np.diff(tcs), T, opts)
                if e.size and np.max(np.abs(e)) > TOL:
                    vios.append(dict(sig="value:time:coupling", tags=tags, detail="declared partition violates a grid equality row by %g (T=%g,t0=%g)" % (np.max(np.abs(e)), T, t0)))
                    return vios
                if ok and iq.size and np.min(iq) < -1e-9:
                    vios.append(dict(sig="value:time:bounds:over", tags=tags, detail="admissible partition (T=%g) violates a grid inequality row by %g" % (T, np.min(iq))))
                    return vios
                if not ok and Tfree and kind != "free" and nt and not (iq.size and np.min(iq) < -1e-12):
                    vios.append(dict(sig="value:time:bounds:missing", tags=tags + ["minmax_not_enforced"], detail="interval lengths %s outside [min,max]=[%g,%g] but no NLP row is violated (T=%g)" % (np.round(np.diff(tcs), 3), opts.get("min", 0), opts.get("max", np.inf), T)))
                    return vios
    # (2) nothing but the declared family solves the equality rows
    if nt:
        if Je.size:
            u, s, vt = np.linalg.svd(Je)
            rank = int(np.sum(s > 1e-10))
            Z = vt[rank:].T
        else:
            Z = np.eye(nt)
        for z in Z.T:
            dt = A @ z
            dtc, dT, dt0 = dt[:N + 1], dt[N + 1], dt[N + 2]
            if kind == "free":
                bad = abs(dtc[0] - dt0) > 1e-9 or abs(dtc[N] - dt0 - dT) > 1e-9
            elif n is not None:
                bad = not NL.close(dtc, dt0 + dT * np.array(n), TOL)
            else:
                bad = abs(dtc[0] - dt0) > 1e-9 or abs(dtc[N] - dt0 - dT) > 1e-9
            if bad:
                vios.append(dict(sig="value:time:underdetermined", tags=tags + ["coupling_missing"], detail="the grid's equality rows admit node movements %s that leave the declared partition (dT=%g dt0=%g)" % (np.round(dtc, 4), dT, dt0)))
                break
    # (3) bounds on interval lengths: enforced exactly (boundary lattice), wherever lengths are decisions
    if ("min" in opts or "max" in opts or kind == "free") and nt:       # (FreeGrid without options: lengths >= 0)
        mn, mx = opts.get("min", 0.0), opts.get("max", np.inf)
        scen = []
        if kind == "free":
            T = d["TT"]; t0 = d["T0"]
            for k in range(N):
                for val in (mn - 0.05, mn + 0.02, mx - 0.02, mx + 0.05):
                    if N == 1 or not np.isfinite(val): continue
                    Ls = np.full(N, (mn + min(mx, mn + 1.0)) / 2)
                    Ls[k] = val
                    scen.append((t0 + np.concatenate([[0], np.cumsum(Ls)]), Ls.sum(), t0))
        elif n is not None and Tfree:
            nn = np.diff(np.array(n))
            for k in range(N):
                for val in (mn - 0.05, mn + 0.02, mx - 0.02, mx + 0.05):
                    if not np.isfinite(val): continue
                    T = val / nn[k]
                    if T <= 0: continue
                    scen.append((d["T0"] + T * np.array(n), T, d["T0"]))
        for tcs, T, t0 in scen:
            if t0free is False and abs(t0 - d["T0"]) > 1e-12: continue
            if not Tfree and abs(T - d["TT"]) > 1e-9:
                continue
            w, err = solve_for(np.concatenate([tcs, [T, t0]]))
            if err > 1e-9:
                continue
            e, iq = trow_vals(w)
            if e.size and np.max(np.abs(e)) > 1e-9:
                continue
            ok = lengths_expected_ok(np.diff(tcs), T, opts)
            real_ok = not (iq.size and np.min(iq) < -1e-12)
            if ok != real_ok:
                vios.append(dict(sig="value:time:bounds:%s" % ("over" if ok else "missing"), tags=tags + ([] if ok else ["minmax_not_enforced"]),
                                 detail="lengths %s: expected %s by [min,max]=[%g,%g], NLP rows say %s" % (np.round(np.diff(tcs), 3), "feasible" if ok else "infeasible", mn, mx, "feasible" if real_ok else "infeasible")))
                break
    # (4) structure for grids whose density the reference does not model (DenseEdges): symmetric, increasing
    if kind == "dense_edges" and not labelled:
        tc = nlp.read(w0, extra=ex)["tc"].reshape(-1)
        T = float(nlp.read(w0, extra=ex)["T"].reshape(-1)[0]); t0 = float(nlp.read(w0, extra=ex)["t0"].reshape(-1)[0])
        nn = (tc - t0) / T
        if not (abs(nn[0]) < 1e-12 and abs(nn[-1] - 1) < 1e-12 and np.all(np.diff(nn) > 0) and NL.close(nn + nn[::-1], np.ones(N + 1), 1e-5)):
            vios.append(dict(sig="value:time:control", tags=tags, detail="DenseEdges grid not a symmetric increasing partition: %s" % nn))
    return vios


def run_single(case):
    d = case["d"]
    kind, opts = P.grid_kind_opts(d)
    if kind == "dense_edges":
        # node locations are not modelled by the reference: take them as labelled, check structure only
        d = dict(d)
    res = core.compare_case(d, return_rows=True)
    tags = _trans.tags_of(d)
    vios = []
    if res.exception is not None:
        vios.append(dict(sig="exception:%s" % (res.exception["frame"] or res.exception["type"]), tags=tags, detail="%s: %s" % (res.exception["type"], res.exception["msg"])))
    else:
        grouped = {}
        for m in res.mismatches:
            if _trans.owned(m["origin"], OWN):
                grouped.setdefault((":".join(m["origin"].split(":")[:2]), m["cls"]), []).append(m)
        for (base, cls), lst in sorted(grouped.items()):
            vios.append(dict(sig="%s:%s" % (cls, base), tags=tags, detail="%d; first: %s" % (len(lst), lst[0]["info"])))
        if getattr(res, "nlp", None) is not None:
            vios += semantics(case, res, tags)
    return res, vios


def compare_dense(d):
    # reuse compare_case with the sampled control grid taken as labelled (monkey: mark as labelled)
    orig = RT.grid_is_labelled
    RT.grid_is_labelled = lambda dd: True
    try:
        return core.compare_case(d, return_rows=True)
    finally:
        RT.grid_is_labelled = orig


def run_case(case):
    if case["kind"] == "single":
        res, vios = run_single(case)
        return dict(violations=vios, evaluations=res.n_points, traces=1, transitions=2,
                    outcome=_trans.outcome_hash(res) + str(len(getattr(res, "time_rows", []) or [])), nontrivial=True,
                    counts=dict(time_rows=len(getattr(res, "time_rows", []) or []), time_coords=len(getattr(res, "time_coords", []) or [])),
                    sample=dict(grid=case["d"]["grid"], N=case["d"]["N"], M=case["d"]["M"], horizon=case["d"]["horizon"], method=case["d"]["method"],
                                time_rows=len(getattr(res, "time_rows", []) or [])))
    # pair: the second OCP must see its own grid although another grid object was used before in this process
    res1, v1 = run_single(dict(kind="single", d=case["d"]))
    res2, v2 = run_single(dict(kind="single", d=case["d2"]))
    for v in v2:
        v["sig"] = v["sig"] + ":after-other-grid"
    return dict(violations=v1 + v2, evaluations=res1.n_points + res2.n_points, traces=2, transitions=4,
                outcome="pair" + _trans.outcome_hash(res1) + _trans.outcome_hash(res2), nontrivial=True,
                sample=dict(pair=[case["d"]["grid"], case["d2"]["grid"]]))


def describe(tier):
    return dict(
        rule="full product grid class(9) x option set(8: plain, localize_t0, localize_T, both, min/max, localize_T+min/max, min only, max only) x N x M x horizon kind x method, plus ordered pairs of grid classes declared in one process; sampled control/integrator/collocation times, value(T,t0,tf), DT, DT_control compared with independently computed partitions (scipy quad+brentq for densities); for the grid's own NLP rows (real rows depending on time coordinates only): declared partitions are reachable and satisfy them, their equality rows admit nothing but the declared family (null-space analysis of the enumerated affine system), min/max are enforced exactly on a boundary lattice",
        bound="N in %s, M in %s" % (("1..8", "1..4") if tier == "thorough" else ("{1,2,3,5}", "{1,2}")),
        assumptions=["CasADi Function evaluation and Opti bookkeeping are trusted", "DenseEdgesGrid: the density is CasADi's own smooth_linear interpolant, equidistributed by scipy; compared at 2e-5 (rockit integrates it with cvodes + bisection)", "density grids compared at 1e-6 (both sides integrate numerically)"])

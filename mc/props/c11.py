"""C11  A free-time problem is the fixed-time problem with T (t0) as a decision variable."""
import numpy as np
from .. import program as P, explore, core, nlp as NL, reftrans as RT
from . import _trans

ID = "C11"
OWN = ("dyn", "path", "point", "obj", "time", "extra", "states", "readback", "param", "reject")

DIMS = dict(
    horizon=["Tfree", "t0free", "bothfree", "Tvar"],
    method=["MS", "SS", "DC"],
    intg=["rk", "expl_euler"],
    N=[2, 1, 3],
    M=[1, 2],
    degree=[2, 1, 3],
    scheme=["radau", "legendre"],
    grid=["uniform", "geom", "geom_local", "function", "free", "uniform_lt0", "uniform_lT", "geom_lt0_lT"],
    rhs=["nl_t", "nl"],
    objT=["T", "tf", "none"],
    conT=["bcT", "T_le", "tf_le", "none"],
    pathc=["xt_le", "dt_le", "none"],
    Tguess=[1.9, 0.6],
    t0guess=[0.7, -0.4],
    pc=[None, "control", "control+"],
)


def finish(a):
    a = dict(a)
    objT, conT, pathc = a.pop("objT"), a.pop("conT"), a.pop("pathc")
    d = P.case(state="scalar", **a)
    d["obj"] = ["mayer_tf", "integral_t"] + ([objT] if objT != "none" else [])
    d["cons"] = [P.con("bc0")] + ([P.con(conT)] if conT != "none" else []) + ([P.con(pathc)] if pathc != "none" else [])
    return d


def cases(tier):
    k = 3 if tier == "thorough" else 2
    out = []; seen = set()
    for a, dev in explore.deviations(DIMS, k):
        d = finish(a)
        h = explore.sha(d)
        if h in seen: continue
        seen.add(h)
        out.append(dict(d=d, dev=dev, diff=(len(dev) <= (2 if tier == "thorough" else 1))))
    return out


def semantics(case, res, tags):
    d = case["d"]
    nlp = res.nlp
    hz = d["horizon"]
    vios = []
    ex = np.zeros(nlp.n_extra)
    # starting value of the horizon variables is the guess
    q0 = nlp.read(nlp.x0, extra=nlp.extra0)
    if hz in ("Tfree", "bothfree", "Tvar"):
        g = d["Tguess"] if d.get("Tguess") is not None else d["TT"]
        if not NL.close(q0["T"].reshape(-1)[0], g, 1e-12):
            vios.append(dict(sig="value:x0:T", tags=tags, detail="initial T %s vs guess %s" % (q0["T"], g)))
    if hz in ("t0free", "bothfree"):
        g = d["t0guess"] if d.get("t0guess") is not None else d["T0"]
        if not NL.close(q0["t0"].reshape(-1)[0], g, 1e-12):
            vios.append(dict(sig="value:x0:t0", tags=tags, detail="initial t0 %s vs guess %s" % (q0["t0"], g)))
    # T>=0: the only additional restriction.  Among the time-only rows, at a point on the grid's own
    # equality manifold, T<0 must violate a row (FreeTime), T>0 must violate none.
    kind, opts = P.grid_kind_opts(d)
    minmax = ("min" in opts or "max" in opts)
    if hz in ("Tfree", "bothfree") and not minmax:
        rows = res.time_rows
        w0 = res.pts[0]
        tco = list(res.time_coords)
        eq_idx = [r["idx"] for r in rows if r["kind"] == "eq"]

        def place(Tval):
            """a point with value(T)=Tval that satisfies the grid's own equality rows (time coordinates only)"""
            if not RT.grid_is_labelled(d):
                return core.set_times(nlp, w0, T=Tval)
            def resid(w_):
                f_, g_, lb_, ub_ = nlp.eval(w_)
                q_ = nlp.read(w_, extra=ex)
                return np.concatenate([[q_["T"].reshape(-1)[0] - Tval], [g_[i] - lb_[i] for i in eq_idx]])
            r0 = resid(w0)
            J = np.zeros((r0.size, len(tco)))
            for c_, i_ in enumerate(tco):
                w1 = w0.copy(); w1[i_] += 1.0
                J[:, c_] = resid(w1) - r0
            dw = np.linalg.lstsq(J, -r0, rcond=None)[0]
            w_ = w0.copy(); w_[tco] += dw
            r1 = resid(w_)
            return w_, [Tval if np.max(np.abs(r1)) < 1e-9 else np.nan]
        for Tval, expect_ok in ((-0.5, False), (0.8, True), (2.7, True)):
            w, got = place(Tval)
            if not (abs(got[0] - Tval) <= 1e-9):
                if RT.grid_is_labelled(d):
                    break        # not representable with generic auxiliary values: inconclusive
                vios.append(dict(sig="value:time:Tcoord", tags=tags, detail="cannot set T")); break
            if RT.grid_is_labelled(d) and expect_ok:
                continue         # positivity of every local length is C06's; here only: T<0 must be excluded
            f, g, lb, ub = nlp.eval(w)
            slack = []
            for r in rows:
                i = r["idx"]
                if r["kind"] == "eq": continue
                slack.append(g[i] - lb[i] if r["side"] == "lb" else ub[i] - g[i])
            ok = not (slack and min(slack) < -1e-12)
            if ok != expect_ok:
                vios.append(dict(sig="value:Tpos:%s" % ("missing" if ok else "over"), tags=tags, detail="T=%g: time-only inequality rows say %s" % (Tval, "feasible" if ok else "infeasible")))
                break
    if case.get("diff") and d["method"] in ("MS", "DC") and not vios and not res.mismatches:
        vios += differential(case, res, tags)
    return vios


def differential(case, res, tags):
    """restriction of the free-time NLP to T=c (t0=c0) vs the same OCP declared with the numbers, on the real code"""
    d = case["d"]
    if RT.grid_is_labelled(d):
        return []
    nlpA = res.nlp
    vios = []
    for c, c0 in ((0.6, -0.4), (3.1, 0.7)):
        dB = dict(d); dB["horizon"] = "fixed"
        hz = d["horizon"]
        dB["TT"] = c if hz in ("Tfree", "bothfree", "Tvar") else d["TT"]
        dB["T0"] = c0 if hz in ("t0free", "bothfree") else d["T0"]
        resB = core.compare_case(dB, return_rows=True, full_alphabet=False)
        if resB.exception or getattr(resB, "nlp", None) is None:
            # e.g. `T <= 2.5` becomes a constant constraint once T is a number: the twin is not a valid
            # program (rockit rejects constant constraints that are not literally `1`); inconclusive, not a violation
            break
        nlpB = resB.nlp
        fpA = []; fpB = []; fA = []; fB = []
        for w in res.pts[:4]:
            wA, got = core.set_times(nlpA, w, T=(c if hz in ("Tfree", "bothfree", "Tvar") else None), t0=(c0 if hz in ("t0free", "bothfree") else None))
            qA = nlpA.read(wA)
            wB, err = core.label_solve(nlpB, qA, keys=(("X", "U", "vg", "vc") if d["method"] == "MS" else ("Xi", "Xr", "Zr", "U", "vg", "vc")))
            if err > 1e-9:
                return [dict(sig="value:diff:labelling", tags=tags, detail="fixed-time twin cannot represent the labelled point (err %g)" % err)]
            fa, ra = NL.canon_rows(nlpA, [wA]); fb, rb = NL.canon_rows(nlpB, [wB])
            fA.append(fa[0]); fB.append(fb[0]); fpA.append(ra); fpB.append(rb)
        if not NL.close(np.array(fA), np.array(fB), 1e-8):
            vios.append(dict(sig="value:diff:obj", tags=tags, detail="objective of the T=%g restriction %s vs fixed-time %s" % (c, fA[:2], fB[:2]))); break
        rowsA = [dict(kind=r["kind"], fp=np.array([p[j]["fp"][0] for p in fpA]), idx=r["idx"], side=r["side"]) for j, r in enumerate(fpA[0])]
        rowsB = [dict(kind=r["kind"], fp=np.array([p[j]["fp"][0] for p in fpB]), origin="fixed:%d" % r["idx"]) for j, r in enumerate(fpB[0])]
        missing, extra = NL.match_rows(rowsA, rowsB)
        time_idx = set(r["idx"] for r in res.time_rows)
        extra = [e for e in extra if e["idx"] not in time_idx and not NL.vacuous(e)]
        if missing or extra:
            vios.append(dict(sig="value:diff:rows", tags=tags, detail="T=%g: %d rows of the fixed-time OCP missing, %d unexplained rows in the free-time NLP" % (c, len(missing), len(extra)))); break
    return vios


def run_case(case):
    return _trans.run_trans(case, OWN, extra_check=semantics)


def describe(tier):
    return dict(
        rule="deviation-bounded enumeration over free-horizon kind x method/intg/N/M/degree/scheme/grid (incl. localized and FreeGrid) x rhs x objective/constraint/path terms using T,t0,tf,t,DT x guesses x per-interval parameter; all rows and objective vs the reference evaluated at the labelled T,t0; starting value of T/t0 = guess; time-only inequality rows violated exactly for T<0; differential on the real code: restriction to T=c,t0=c0 (c in {0.6,3.1}) vs the OCP declared with the numbers, mapped through the affine labelling",
        bound="k<=%d deviations; differential on states with <=%d deviations" % ((3, 2) if tier == "thorough" else (2, 1)),
        assumptions=["CasADi Function evaluation and Opti bookkeeping are trusted", "generic-point alphabet", "T>=0 is demanded for FreeTime declarations only (a user variable passed to set_T carries no implicit bound)"])

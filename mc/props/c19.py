"""C19  to_function reproduces the set_value / set_initial / solve / sample pipeline."""
import itertools
import numpy as np
from .. import explore, core, nlp as NL

ID = "C19"
CHUNK = 1

N = 3
ARGS = ["pg", "pc", "pcat", "x", "u", "v", "vcp"]
METHODS = [("MS", 1), ("MS", 2), ("SS", 1), ("DC", 1), ("DC", 2)]

A0 = np.array([[-0.5, 0.2], [-0.2, -0.6]])
B0 = np.array([[0.3], [0.8]])


def values(name, which):
    """argument value alphabet (3 per argument)"""
    if name == "pg":
        return [0.7, -0.4, 1.3][which]
    if name == "pc":
        return np.array([[0.2, -0.1, 0.3], [0.0, 0.4, -0.2], [-0.3, 0.1, 0.25]][which]).reshape(1, N)
    if name == "pcat":
        A = A0 + [0.0, 0.15, -0.1][which] * np.array([[1.0, -1.0], [2.0, 0.5]])
        b = B0 + [0.0, 0.2, -0.15][which] * np.array([[1.0], [-1.0]])
        return np.concatenate([A.reshape(-1, order="F"), b.reshape(-1)]).reshape(-1, 1)
    if name == "x":
        base = np.array([[0.9, 0.6, 0.4, 0.2], [0.5, 0.1, -0.2, 0.3]])
        return base * [1.0, -0.5, 0.3][which] + [0.0, 0.2, -0.1][which]
    if name == "u":
        return np.array([[0.3, -0.2, 0.1], [-0.4, 0.5, 0.0], [0.1, 0.1, -0.6]][which]).reshape(1, N)
    if name == "v":
        return [0.25, -0.35, 0.6][which]
    if name == "vcp":
        return np.array([[0.1, 0.3, -0.2, 0.45], [-0.3, 0.2, 0.5, -0.15], [0.4, -0.1, 0.05, 0.3]][which]).reshape(1, N + 1)
    if name == "Tg":
        return [1.3, 2.0, 2.6][which]       # guess of the free horizon as an argument (free-horizon variant only)
    raise KeyError(name)


def build(meth, M, budget, variant="fixed"):
    import rockit, casadi as ca
    ocp = rockit.Ocp(t0=0.2, T=rockit.FreeTime(1.5) if variant == "Tfree" else 1.5)
    x = ocp.state(2); u = ocp.control()
    A = ocp.parameter(2, 2); b = ocp.parameter(2, 1); pg = ocp.parameter(); pc = ocp.parameter(grid="control")
    v = ocp.variable()
    wv = ocp.variable(grid="control", include_last=True)
    ocp.set_der(x, ca.mtimes(A, x) + b * u + ca.vertcat(pc, 0) + ca.vertcat(0, v) + ca.vertcat(0.1 * wv, 0))
    ocp.add_objective(ocp.integral(ca.sumsqr(x) + u * u) + ca.sumsqr(ocp.at_tf(x) - ca.vertcat(pg, 0.5)) + (v - 0.3) ** 2 + ocp.sum((wv - 0.2) ** 2, include_last=True))
    if variant == "Tfree":
        # a user guess for the free horizon that is NOT an argument of the function: it keeps its current value
        ocp.add_objective((ocp.T - 1.8) ** 2)
        ocp.set_initial(ocp.T, 2.2)
    ocp.subject_to(ocp.at_t0(x) == ca.vertcat(1.0, 0.5))
    ocp.subject_to(-2 <= (u <= 2))
    ocp.set_value(A, A0); ocp.set_value(b, B0); ocp.set_value(pg, 0.9); ocp.set_value(pc, np.array([[0.1, 0.2, -0.1]]))
    ocp.set_initial(u, 0.05); ocp.set_initial(v, 0.1)
    opts = {"ipopt.print_level": 0, "print_time": False, "ipopt.sb": "yes"}
    if budget == "converge":
        opts["ipopt.tol"] = 1e-11
    else:
        opts["ipopt.max_iter"] = 0
    ocp.solver("ipopt", opts)
    ocp.method({"MS": lambda: rockit.MultipleShooting(N=N, M=M), "SS": lambda: rockit.SingleShooting(N=N, M=M), "DC": lambda: rockit.DirectCollocation(N=N, M=M, degree=2)}[meth]())
    return ocp, dict(x=x, u=u, A=A, b=b, pg=pg, pc=pc, v=v, wv=wv)


def arg_expr(ocp, s, name):
    import casadi as ca
    if name == "pg": return ocp.value(s["pg"])
    if name == "pc": return ocp.sample(s["pc"], grid="control-")[1]
    if name == "pcat": return ca.vertcat(ca.vec(s["A"]), s["b"])
    if name == "x": return ocp.sample(s["x"], grid="control")[1]
    if name == "u": return ocp.sample(s["u"], grid="control-")[1]
    if name == "v": return ocp.value(s["v"])
    if name == "vcp": return ocp.sample(s["wv"], grid="control")[1]
    if name == "Tg": return ocp.value(ocp.T)


def assign(ocp, s, name, val):
    import casadi as ca
    if name == "pg": ocp.set_value(s["pg"], val)
    elif name == "pc": ocp.set_value(s["pc"], val)
    elif name == "pcat": ocp.set_value(ca.vertcat(ca.vec(s["A"]), s["b"]), val)
    elif name == "x": ocp.set_initial(s["x"], val)
    elif name == "u": ocp.set_initial(s["u"], val)
    elif name == "v": ocp.set_initial(s["v"], val)
    elif name == "vcp": ocp.set_initial(s["wv"], val)
    elif name == "Tg": ocp.set_initial(ocp.T, val)


def results(ocp, s):
    return [ocp.sample(s["x"], grid="control")[1], ocp.sample(s["u"], grid="control-")[1], ocp.value(ocp.objective), ocp.value(s["v"]),
            ocp.sample(s["wv"], grid="control")[1], ocp.value(ocp.T)]


def cases(tier):
    out = []
    kmax = 3 if tier == "thorough" else 2
    for meth, M in METHODS:
        for budget in ("converge", "zero"):
            for k in range(1, kmax + 1):
                for args in itertools.permutations(ARGS, k):
                    if meth == "SS" and "x" in args:
                        continue      # under SingleShooting the sampled states are not decision variables: not a guess argument
                    if k == 3 and tier == "thorough" and not (set(args) & {"x", "u", "v"} and set(args) & {"pg", "pc", "pcat"}):
                        continue
                    if k == 2 and tier != "thorough" and (meth, M) in (("MS", 2), ("DC", 2)) and args[0] > args[1]:
                        continue
                    out.append(dict(method=meth, M=M, budget=budget, args=list(args)))
            # free horizon with a user guess that is not among the arguments
            for args in (["u"], ["pg"], ["v", "u"], ["vcp"], ["Tg"], ["Tg", "u"], ["pg", "Tg"]):
                out.append(dict(method=meth, M=M, budget=budget, args=args, variant="Tfree"))
    return out


def run_case(case):
    import casadi as ca, sys
    meth, M, budget, args = case["method"], case["M"], case["budget"], case["args"]
    tags = ["method=%s" % meth, "M=%d" % M, "budget=%s" % budget] + ["arg=%s" % a for a in args]
    vios = []
    evals = 0
    inconclusive = 0
    try:
        variant = case.get("variant", "fixed")
        ocp, s = build(meth, M, budget, variant)
        F = ocp.to_function("F", [arg_expr(ocp, s, a) for a in args], results(ocp, s))
    except Exception as e:
        fr = core.rockit_frame(sys.exc_info()[2])
        if fr is None and not isinstance(e, (RuntimeError, AssertionError)):
            raise
        return dict(violations=[dict(sig="exception:to_function:%s" % (fr or type(e).__name__), tags=tags, detail="%s: %s" % (type(e).__name__, str(e)[:200]))], evaluations=1, traces=1, transitions=1, outcome="exc", nontrivial=True, sample=case)
    combos = list(itertools.product(range(3), repeat=len(args)))
    outs = []
    for combo in combos:
        vals = [values(a, w) for a, w in zip(args, combo)]
        try:
            got = F(*vals)
            got = [np.array(g) for g in (got if isinstance(got, (list, tuple)) else [got])]
        except Exception as e:
            vios.append(dict(sig="exception:F-call", tags=tags, detail="%s: %s" % (type(e).__name__, str(e)[:200]))); break
        # the imperative pipeline on a fresh OCP
        try:
            o2, s2 = build(meth, M, budget, variant)
            for a, v_ in zip(args, vals):
                assign(o2, s2, a, v_)
            if budget == "converge":
                try:
                    sol = o2.solve()
                except Exception:
                    inconclusive += 1
                    continue
            else:
                sol = o2.solve_limited()
            _, xs = sol.sample(s2["x"], grid="control")
            _, us = sol.sample(s2["u"], grid="control-")
            _, ws = sol.sample(s2["wv"], grid="control")
            want = [np.atleast_2d(xs).T if np.atleast_2d(xs).shape[0] == N + 1 else np.atleast_2d(xs), np.atleast_2d(us), np.atleast_2d(sol.value(o2.objective)), np.atleast_2d(sol.value(s2["v"])),
                    np.atleast_2d(ws), np.atleast_2d(sol.value(o2.T))]
        except Exception as e:
            fr = core.rockit_frame(sys.exc_info()[2])
            if fr is None and not isinstance(e, (RuntimeError, AssertionError, ValueError)):
                raise
            vios.append(dict(sig="exception:pipeline:%s" % (fr or type(e).__name__), tags=tags, detail="%s: %s" % (type(e).__name__, str(e)[:200]))); break
        evals += 1
        if budget == "converge" and combo in (combos[0], combos[-1]) and not vios:
            # the pipeline repeated on the SAME Ocp with the next argument value (what a user does between two calls of F):
            # the second solve must start where a fresh Ocp with these assignments starts - a completed solve leaves no
            # trace in the starting point ("arguments not listed keep their current values", not the last solution)
            try:
                nxt = [values(a, (w + 1) % 3) for a, w in zip(args, combo)]
                for a, v_ in zip(args, nxt):
                    assign(o2, s2, a, v_)
                o4, s4 = build(meth, M, budget, variant)
                for a, v_ in zip(args, nxt):
                    assign(o4, s4, a, v_)
                o4._transcribed
                starts = []
                for o_ in (o2, o4):
                    op_ = o_._method.opti
                    starts.append(np.array(op_.debug.value(op_.x, op_.initial()), dtype=float).reshape(-1))
                if starts[0].shape != starts[1].shape or not NL.close(starts[0], starts[1], 1e-9):
                    vios.append(dict(sig="stale:second-solve-start", tags=tags, detail="after a completed solve and new assignments of the arguments the next solve starts from %s, a fresh Ocp with the same assignments from %s" % (np.round(starts[0][:6], 5).tolist(), np.round(starts[1][:6], 5).tolist())))
                    break
            except Exception as e:
                fr = core.rockit_frame(sys.exc_info()[2])
                if fr is None and not isinstance(e, (RuntimeError, AssertionError, ValueError)):
                    raise
                vios.append(dict(sig="exception:second-pipeline:%s" % (fr or type(e).__name__), tags=tags, detail="%s: %s" % (type(e).__name__, str(e)[:200]))); break
        names = ["states", "controls", "objective", "variable", "variable_plus", "T"]
        tol = 1e-6 if budget == "converge" else 1e-9
        for nm, g_, w_ in zip(names, got, want):
            g2 = np.atleast_2d(g_); w2 = np.atleast_2d(w_)
            if g2.shape != w2.shape and g2.size == w2.size:
                w2 = w2.reshape(g2.shape) if w2.T.shape != g2.shape else w2.T
            if g2.shape != w2.shape or not NL.close(g2, w2, tol):
                vios.append(dict(sig="value:%s:%s" % (budget, nm), tags=tags, detail="F%s: %s = %s, pipeline gives %s" % (tuple(combo), nm, np.round(g2, 6).tolist(), np.round(w2, 6).tolist())))
                break
        if variant == "Tfree" and budget == "zero" and not vios and "Tg" not in args:
            # an argument that is not listed keeps its current value: the user's guess of T
            if not NL.close(np.atleast_2d(got[5]), np.array([[2.2]]), 1e-9):
                vios.append(dict(sig="value:zero:unlisted-guess", tags=tags, detail="F starts from T=%s although the current guess of the (unlisted) free horizon is 2.2" % np.round(got[5], 6).tolist()))
        outs.append(np.round(got[2], 7).tolist())
        if vios: break
    # the same request again after an update of a value that is NOT an argument: the new function uses the new value
    upd = next((u_ for u_ in ("pg", "v") if u_ not in args), None)
    if not vios and upd is not None and (upd == "pg" or budget == "zero") and case.get("second", True):
        newval = {"pg": 1.7, "v": -0.45}[upd]
        try:
            assign(ocp, s, upd, newval)
            F2 = ocp.to_function("F", [arg_expr(ocp, s, a) for a in args], results(ocp, s))
            vals = [values(a, 0) for a in args]
            got = F2(*vals)
            got = [np.array(g) for g in (got if isinstance(got, (list, tuple)) else [got])]
            o3, s3 = build(meth, M, budget, variant)
            assign(o3, s3, upd, newval)
            for a, v_ in zip(args, vals):
                assign(o3, s3, a, v_)
            sol = o3.solve() if budget == "converge" else o3.solve_limited()
            want = [np.atleast_2d(sol.value(o3.objective)), np.atleast_2d(sol.value(s3["v"]))]
            tol = 1e-6 if budget == "converge" else 1e-9
            for nm, g_, w_ in zip(("objective", "variable"), (got[2], got[3]), want):
                if not NL.close(np.atleast_2d(g_), w_, tol):
                    vios.append(dict(sig="stale:second-function:%s" % nm, tags=tags + ["updated=%s" % upd], detail="after set_%s of the unlisted %s a second to_function with the same arguments gives %s = %s, the pipeline gives %s" % ("value" if upd == "pg" else "initial", upd, nm, np.round(g_, 6).tolist(), np.round(w_, 6).tolist())))
                    break
            evals += 1
        except Exception as e:
            fr = core.rockit_frame(sys.exc_info()[2])
            if fr is None and not isinstance(e, (RuntimeError, AssertionError, ValueError)):
                raise
            if budget != "converge" or fr is not None:
                vios.append(dict(sig="exception:second-function:%s" % (fr or type(e).__name__), tags=tags, detail="%s: %s" % (type(e).__name__, str(e)[:200])))
    return dict(violations=vios, evaluations=max(evals, 1), traces=1 + evals, transitions=len(combos), outcome=explore.sha([case, outs]), nontrivial=evals > 0,
                counts=dict(inconclusive=inconclusive), sample=dict(case=case, combos=len(combos)))


def describe(tier):
    return dict(
        rule="strictly convex OCP (linear 2-state dynamics with a matrix and a vector parameter, a global and a per-interval parameter, a global variable, quadratic cost, N=3) x method {MS M=1/2, SS, DC M=1/2} x every ordered argument list of length <=%d over {value(global parameter), sampled per-interval parameter, concatenation vec(A);b of a matrix and a vector parameter, sampled state guess, sampled control guess, valued variable guess, sampled include_last variable guess}; a free-horizon variant with a user guess of T that is not an argument, or is one (value(T)) x the full product of a 3-value alphabet per argument x solver budget {converge (tol 1e-11), zero iterations (returns the start point: decides the initial-guess arguments)}: after the product, a value that is not an argument (the global parameter, else the variable's guess) is updated on the same Ocp and the same request is made again: the second function reflects the update; every output of F (sampled states, sampled controls, objective, variable) equals the result of a fresh OCP on which the same values are assigned with set_value / set_initial, solved, and read with sol.sample / sol.value" % (3 if tier == "thorough" else 2),
        bound="argument lists of length <=%d; 3 values per argument" % (3 if tier == "thorough" else 2),
        assumptions=["ipopt is deterministic for a fixed NLP and start point", "a non-converged 'converge' run is inconclusive (counted)"])

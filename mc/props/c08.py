"""C08  Refined sampling and samplers interpolate the discrete solution consistently."""
import itertools, math
import numpy as np
from .. import program as P, explore, core, nlp as NL, reftrans as RT
from ..backends import NP
from . import _trans

ID = "C08"
CHUNK = 2

DIMS = dict(
    method=["MS", "SS", "DC"],
    intg=["rk", "expl_euler"],
    degree=[2, 1, 3, 4, 5],
    scheme=["radau", "legendre"],
    N=[2, 1, 3],
    M=[1, 2, 3],
    grid=["uniform", "geom", "free", "function"],
    rhs=["nl_t", "nl", "lin_t", "poly1", "poly2"],
    state=["vec2", "scalar"],
    horizon=["fixed", "Tfree"],
    pc=[None, "control"],
)


def finish(a):
    a = dict(a)
    if a["rhs"] in ("poly1", "poly2", "polyd"):
        a["pc"] = None        # keep the solution a pure polynomial
    d = P.case(**a)
    d["cons"] = []
    d["obj"] = ["mayer_tf", "integral"]
    return d


def cases(tier):
    k = 3 if tier == "thorough" else 2
    out = []; seen = set()

    def add(a, dev):
        d = finish(a)
        h = explore.sha(d)
        if h not in seen:
            seen.add(h); out.append(dict(d=d, dev=dev))
    for a, dev in explore.deviations(DIMS, k):
        add(a, dev)
    # every scheme x M x grid on the nonlinear time-dependent model and on the polynomial-solution models
    schemes = [("MS", dict(intg="rk")), ("MS", dict(intg="expl_euler")), ("SS", dict(intg="rk")), ("SS", dict(intg="expl_euler"))] + \
              [("DC", dict(degree=dg, scheme=sc)) for dg in (1, 2, 3, 4, 5) for sc in ("radau", "legendre")]
    for meth, ex in schemes:
        for M in (1, 2, 3):
            for g in ("uniform", "geom"):
                for rhs in ("nl_t", "poly1", "poly2", "polyd"):
                    a = {n: DIMS[n][0] for n in DIMS}
                    a.update(method=meth, M=M, grid=g, rhs=rhs, **ex)
                    add(a, ["method", "M", "grid", "rhs"] + list(ex))
    # a user quadrature state: its refined samples interpolate its integrator-grid values consistently
    for meth, ex in schemes:
        for M in (1, 2):
            for g in ("uniform", "geom"):
                a = {n: DIMS[n][0] for n in DIMS}
                a.update(method=meth, M=M, grid=g, rhs="nl_t", **ex)
                dq = finish(a); dq["quad"] = True
                out.append(dict(kind="quad", d=dq, dev=["quad", "method", "M", "grid"] + list(ex)))
    # DAE models under DirectCollocation: sampler / refined samples of the algebraic variable
    for dg in (1, 2, 3, 4):
        for sc in ("radau", "legendre"):
            for M in (1, 2, 3):
                for N in (1, 2):
                    for g in ("uniform", "geom"):
                        dd = P.case(method="DC", degree=dg, scheme=sc, M=M, N=N, grid=g, alg=True, rhs="nl_t", state="vec2")
                        dd["cons"] = []; dd["obj"] = ["mayer_tf", "integral", "int_z"]
                        out.append(dict(kind="dae", d=dd, dev=["dae", "degree", "scheme", "M", "N", "grid"]))
    # histories: the horizon is changed after a first transcription in which refined samples were already taken
    for meth, ex in schemes:
        for M in (1, 2):
            for g in ("uniform", "geom"):
                a = {n: DIMS[n][0] for n in DIMS}
                a.update(method=meth, M=M, grid=g, rhs="nl_t", **ex)
                out.append(dict(kind="hist", d=finish(a), T2=2.7, t02=0.2, dev=["hist", "method", "M", "grid"] + list(ex)))
    return out


def scheme_degree(d):
    if d["method"] == "DC": return d["degree"]
    return 1 if d["intg"] == "expl_euler" else 4


def feasible(nlp, w, iters=25):
    """a point satisfying the real dynamic (equality) rows: min-norm Newton on the enumerated rows"""
    if nlp.ng == 0:
        return w, 0.0
    f, g, lb, ub = nlp.eval(w)
    eq = [i for i in range(nlp.ng) if np.isfinite(lb[i]) and abs(lb[i] - ub[i]) < 1e-13]
    if not eq:
        return w, 0.0
    import casadi as ca
    if not hasattr(nlp, "_J"):
        geq = ca.vertcat(*[nlp.opti.g[i] - nlp.opti.lbg[i] for i in eq])
        nlp._J = ca.Function("J", [nlp.x, nlp.p], [geq, ca.jacobian(geq, nlp.x)])
    for it in range(iters):
        g0, J = nlp._J(w, nlp.p0)
        g0 = np.array(g0).reshape(-1); J = np.array(J)
        if np.max(np.abs(g0)) < 1e-12:
            break
        w = w - np.linalg.lstsq(J, g0, rcond=None)[0]
    g0 = np.array(nlp._J(w, nlp.p0)[0]).reshape(-1)
    return w, float(np.max(np.abs(g0)))


def exact_solution(d, x0, t0, t):
    """closed-form solution of the polynomial-solution models"""
    if d["rhs"] == "poly1":
        return x0 + 0.7 * (t - t0)
    if d["rhs"] == "poly2":
        return x0 + 0.3 * (t ** 2 - t0 ** 2) + 0.2 * (t - t0)
    if d["rhs"] == "polyd":
        n = d["degree"] if d["method"] == "DC" else (1 if d["intg"] == "expl_euler" else 2)
        return x0 + (t ** n - t0 ** n) / n
    return None


def run_hist(case):
    """read-back after an edit: refined samples and the sampler of an Ocp whose horizon was changed after a first
    transcription (in which the same refined sample was already taken) equal those of a fresh Ocp"""
    import casadi as ca, sys, copy
    d = case["d"]
    tags = _trans.tags_of(d) + ["hist"]
    vios = []
    try:
        r = P.declare(d)
        x = ca.vec(r.sym["x"])
        NL.Nlp(r.ocp)
        for rr in (1, 3):
            r.st.sample(x, grid="integrator", refine=rr)       # fills whatever the implementation caches
        r.st.sampler(x)
        r.st.set_T(case["T2"]); r.st.set_t0(case["t02"])
        d2 = copy.deepcopy(d); d2["TT"] = case["T2"]; d2["T0"] = case["t02"]
        rf = P.declare(d2)
        xf = ca.vec(rf.sym["x"])
        outs = []
        for rr_, sym, st in ((r, x, r.st), (rf, xf, rf.st)):
            nlp = NL.Nlp(rr_.ocp)
            w = NL.generic(nlp.nx, 0, 0, lo=0.2, hi=1.2)
            vals = []
            for rr in (1, 3, 5):
                t_, v_ = st.sample(sym, grid="integrator", refine=rr)
                F = ca.Function("f", [nlp.x, nlp.p], [t_, v_], {"allow_free": True})
                if F.has_free():
                    fr_ = F.free_mx(); F = ca.Function("f", [nlp.x, nlp.p] + fr_, [t_, v_])
                    o = F(w, nlp.p0, *[nlp.opti.debug.value(q_, nlp.opti.initial()) for q_ in fr_])
                else:
                    o = F(w, nlp.p0)
                vals.append([np.array(o[0]).reshape(-1), np.array(o[1])])
            smp = st.sampler(sym)
            gist = np.concatenate([w, nlp.p0])
            tq = vals[1][0][::2]
            vals.append([tq, np.array([np.array(smp(gist, float(t))).reshape(-1) for t in tq]).T])
            outs.append(vals)
        for (ta, va), (tb, vb), name in zip(outs[0], outs[1], ("refine=1", "refine=3", "refine=5", "sampler")):
            if ta.shape != tb.shape or not NL.close(ta, tb, 1e-10):
                vios.append(dict(sig="stale:refined-times", tags=tags + [name], detail="%s after set_T/set_t0: time stamps differ from a fresh Ocp" % name)); break
            if va.shape != vb.shape or not NL.close(va, vb, 1e-8):
                vios.append(dict(sig="stale:refined-values", tags=tags + [name], detail="%s after set_T/set_t0: values differ from a fresh Ocp by %g" % (name, np.max(np.abs(va - vb))))); break
    except Exception as e:
        from .. import core as core_
        fr = core_.rockit_frame(sys.exc_info()[2])
        if fr is None and not isinstance(e, (RuntimeError, AssertionError)):
            raise
        vios.append(dict(sig="exception:hist:%s" % (fr or type(e).__name__), tags=tags, detail="%s: %s" % (type(e).__name__, str(e)[:200])))
    return dict(violations=vios, evaluations=8, traces=2, transitions=4, outcome=explore.sha([_trans.compact(d), [v["sig"] for v in vios]]), nontrivial=True, sample=dict(d=_trans.compact(d), hist=True))


def run_dae(case):
    """DAE under DirectCollocation: the sampler and the refined samples of an expression with the algebraic variable
    use, inside every integrator step, the polynomial of degree d-1 through the step's collocation values of z"""
    import casadi as ca, sys
    d = case["d"]
    tags = _trans.tags_of(d) + ["dae"]
    vios = []
    N, M, deg = d["N"], d["M"], d["degree"]
    evals = 0
    try:
        r = P.declare(d)
        st, s = r.st, r.sym
        z = s["z"]; x0 = ca.vec(s["x"])[0]
        nlp = NL.Nlp(r.ocp)
        w = NL.generic(nlp.nx, 0, core.get_seed() if hasattr(core, "get_seed") else 0, lo=0.2, hi=1.2)

        def ev(*exprs):
            F = ca.Function("f", [nlp.x, nlp.p], list(exprs))
            o = F(w, nlp.p0)
            o = o if isinstance(o, (list, tuple)) else [o]
            return [np.array(e).reshape(-1) for e in o]
        ti, tr_, zr = ev(st.sample(st.t, grid="integrator")[1], st.sample(st.t, grid="integrator_roots")[1], st.sample(z, grid="integrator_roots")[1])
        col = RT.colloc(deg, d["scheme"])

        def zpoly(i, frac):
            zz = zr[i * deg:(i + 1) * deg]
            val = 0.0
            for j in range(deg):
                lj = 1.0
                for q_ in range(deg):
                    if q_ != j:
                        lj *= (frac - col["tau"][q_]) / (col["tau"][j] - col["tau"][q_])
                val += zz[j] * lj
            return val
        smp = st.sampler(ca.vertcat(z, z * x0))
        xs_smp = st.sampler(x0)
        gist = np.concatenate([w, nlp.p0])
        for i in range(N * M):
            for frac in (0.0, 0.5, 1 / math.sqrt(2 + i), 0.9):
                tq = ti[i] + frac * (ti[i + 1] - ti[i])
                got = np.array(smp(gist, float(tq))).reshape(-1)
                xv = float(np.array(xs_smp(gist, float(tq))).reshape(-1)[0])
                want = np.array([zpoly(i, frac), zpoly(i, frac) * xv])
                evals += 1
                if not NL.close(got, want, 1e-7):
                    vios.append(dict(sig="value:sampler:algebraic", tags=tags, detail="sampler of [z, z*x] at t=%g (integrator step %d of %d) gives %s, the polynomial through the step's collocation values of z gives %s" % (tq, i, N * M, np.round(got, 6), np.round(want, 6)))); break
            if vios: break
        for rr in (2, 3):
            tf, zf = ev(*st.sample(z, grid="integrator", refine=rr))
            for i in range(N * M):
                for j in range(rr):
                    evals += 1
                    if not NL.close(zf[i * rr + j], zpoly(i, j / rr), 1e-7):
                        vios.append(dict(sig="value:refine:algebraic", tags=tags + ["refine=%d" % rr], detail="refined sample %d of z in integrator step %d is %g, the polynomial through the step's collocation values gives %g" % (j, i, zf[i * rr + j], zpoly(i, j / rr)))); break
                if vios: break
            if vios: break
    except Exception as e:
        fr = core.rockit_frame(sys.exc_info()[2])
        if fr is None and not isinstance(e, (RuntimeError, AssertionError)):
            raise
        vios.append(dict(sig="exception:dae:%s" % (fr or type(e).__name__), tags=tags, detail="%s: %s" % (type(e).__name__, str(e)[:200])))
    return dict(violations=vios, evaluations=max(evals, 1), traces=1, transitions=3, outcome=explore.sha([_trans.compact(d), [v["sig"] for v in vios]]), nontrivial=True, sample=dict(d=_trans.compact(d), dae=True))


def run_quad(case):
    """refined samples of a user quadrature state: every r-th refined entry is the integrator-grid value, the closing entry is the
    value at tf, each step's refined values (incl. the next step's start) lie on one polynomial of the scheme's degree (shooting
    methods), and different refinements sample the same polynomial"""
    import casadi as ca, sys
    d = case["d"]
    tags = _trans.tags_of(d) + ["quadrature_state"]
    vios = []
    N, M = d["N"], d["M"]
    evals = 0
    try:
        r = P.declare(d)
        st, s = r.st, r.sym
        nlp = NL.Nlp(r.ocp)
        w = NL.generic(nlp.nx, 0, core.get_seed() if hasattr(core, "get_seed") else 0, lo=0.2, hi=1.1)
        w, resid = feasible(nlp, w)
        Rs = [1, 2, 3, 7] if d["method"] != "DC" else []       # (refined sampling of a quadrature state raises under DirectCollocation)
        ex = [st.sample(s["q"], grid="integrator")[1], st.sample(s["q"], grid="control")[1]] + [st.sample(s["q"], grid="integrator", refine=rr)[1] for rr in Rs]
        vals = [np.array(v).reshape(-1) for v in ca.Function("q", [nlp.x, nlp.p], ex)(w, nlp.p0)]
        Qi, Qc = vals[0], vals[1]
        Qf = dict(zip(Rs, vals[2:]))
        if not NL.close(Qi[::M], Qc, 1e-9):
            vios.append(dict(sig="value:quad:thinning:control", tags=tags, detail="every M-th integrator-grid value of the quadrature state differs from its control-grid sample: %s vs %s" % (np.round(Qi[::M], 5), np.round(Qc, 5))))
        for rr in Rs:
            evals += Qf[rr].size
            if Qf[rr].size != N * M * rr + 1 or not NL.close(Qf[rr][::rr], Qi, 1e-8):
                vios.append(dict(sig="value:quad:thinning:integrator", tags=tags + ["refine=%d" % rr], detail="every r-th refined value of the quadrature state differs from the integrator-grid sample (closing entry %g vs %g)" % (Qf[rr][-1], Qi[-1])))
                break
        if not vios and d["method"] != "DC":
            deg = 1 if d["intg"] == "expl_euler" else 4
            R = 7; ssub = np.linspace(0, 1, R + 1); polys = []
            for i in range(N * M):
                seg = Qf[R][i * R:(i + 1) * R + 1]
                p_ = np.poly1d(np.polyfit(ssub, seg, deg))
                polys.append(p_)
                if np.max(np.abs(p_(ssub) - seg)) > 1e-8 * (1 + np.max(np.abs(seg))):
                    vios.append(dict(sig="value:quad:degree", tags=tags, detail="the refined values of the quadrature state in integrator step %d (incl. its end value) do not lie on one polynomial of degree %d (residual %g)" % (i, deg, np.max(np.abs(p_(ssub) - seg)))))
                    break
            if not vios:
                for rr in (2, 3):
                    for i in range(N * M):
                        for j in range(rr):
                            if not NL.close(Qf[rr][i * rr + j], polys[i](j / rr), 1e-7):
                                vios.append(dict(sig="value:quad:inconsistent", tags=tags + ["refine=%d" % rr], detail="refine=%d and refine=7 disagree inside integrator step %d for the quadrature state" % (rr, i))); break
                        if vios: break
                    if vios: break
    except Exception as e:
        fr = core.rockit_frame(sys.exc_info()[2])
        if fr is None and not isinstance(e, (RuntimeError, AssertionError)):
            raise
        vios.append(dict(sig="exception:quad:%s" % (fr or type(e).__name__), tags=tags, detail="%s: %s" % (type(e).__name__, str(e)[:200])))
    return dict(violations=vios, evaluations=max(evals, 1), traces=1, transitions=2, outcome=explore.sha([_trans.compact(d), [v["sig"] for v in vios]]), nontrivial=True, sample=dict(d=_trans.compact(d), quad=True))


def run_case(case):
    if case.get("kind") == "hist":
        return run_hist(case)
    if case.get("kind") == "quad":
        return run_quad(case)
    if case.get("kind") == "dae":
        return run_dae(case)
    import casadi as ca, sys
    d = case["d"]
    tags = _trans.tags_of(d) + ["rhs=%s" % d["rhs"]]
    vios = []
    N, M = d["N"], d["M"]
    deg = scheme_degree(d)
    try:
        r = P.declare(d)
        st, s = r.st, r.sym
        x = ca.vec(s["x"])
        nx = x.numel()
        rb = core.readbacks(r)
        Rs = [1, 2, 3, 4, 5, 6, 7]
        for rr in Rs:
            t_, v_ = st.sample(x, grid="integrator", refine=rr)
            rb["tf%d" % rr] = t_; rb["Xf%d" % rr] = v_
        nlp = NL.Nlp(r.ocp, rb)
    except Exception as e:
        fr = core.rockit_frame(sys.exc_info()[2])
        if fr is None and not isinstance(e, (RuntimeError, AssertionError)):
            raise
        return dict(violations=[dict(sig="exception:%s" % (fr or type(e).__name__), tags=tags, detail="%s: %s" % (type(e).__name__, str(e)[:200]))], evaluations=1, traces=1, transitions=1, outcome="exc", nontrivial=True, sample=dict(d=_trans.compact(d)))
    evals = 0
    outcome = []
    for which in (0, 1):
        w = NL.generic(nlp.nx, which, core.get_seed() if hasattr(core, "get_seed") else 0, lo=0.2, hi=1.2)
        w, resid = feasible(nlp, w)
        if resid > 1e-9:
            continue
        q = nlp.read(w, extra=nlp.extra0)
        tr = RT.RefTraj(d, q)
        ti = q["ti"].reshape(-1); Xi = q["Xi"].reshape(nx, -1, order="F")
        tc = q["tc"].reshape(-1); Xc = q["X"].reshape(nx, -1, order="F")
        # (1) thinning
        if not (NL.close(ti[::M], tc, 1e-10) and NL.close(Xi[:, ::M], Xc, 1e-9)):
            vios.append(dict(sig="value:thinning:control", tags=tags, detail="every M-th integrator-grid entry differs from the control-grid sample"))
        polys = None
        for rr in Rs:
            tf = q["tf%d" % rr].reshape(-1); Xf = q["Xf%d" % rr].reshape(nx, -1, order="F")
            evals += Xf.size
            if tf.shape[0] != N * M * rr + 1:
                vios.append(dict(sig="value:refine:count", tags=tags + ["refine=%d" % rr], detail="%d entries, expected %d" % (tf.shape[0], N * M * rr + 1))); break
            if not (NL.close(tf[::rr], ti, 1e-10) and NL.close(Xf[:, ::rr], Xi, 1e-8)):
                vios.append(dict(sig="value:thinning:integrator", tags=tags + ["refine=%d" % rr], detail="every r-th refined entry differs from the integrator-grid sample (max time diff %g, value diff %g)" % (np.max(np.abs(tf[::rr] - ti)), np.max(np.abs(Xf[:, ::rr] - Xi))))); break
            # equal subdivisions of each integrator step
            for i in range(N * M):
                seg = tf[i * rr:(i + 1) * rr + 1]
                if not NL.close(np.diff(seg), np.full(rr, (ti[i + 1] - ti[i]) / rr), 1e-9):
                    vios.append(dict(sig="value:refine:times", tags=tags + ["refine=%d" % rr], detail="refined time stamps are not equal subdivisions of integrator step %d" % i)); break
        if vios:
            break
        # (2) one polynomial of degree <= deg per step, starting at the step's start state and ending at its end state
        R = 7
        tf = q["tf%d" % R].reshape(-1); Xf = q["Xf%d" % R].reshape(nx, -1, order="F")
        ssub = np.linspace(0, 1, R + 1)
        polys = []
        for i in range(N * M):
            seg = Xf[:, i * R:(i + 1) * R + 1]          # R+1 points incl. the next step's start (continuity)
            ps = []
            for e in range(nx):
                p_ = np.polyfit(ssub, seg[e], min(deg, R))
                ps.append(np.poly1d(p_))
                fit = np.max(np.abs(np.poly1d(p_)(ssub) - seg[e]))
                if fit > 1e-8 * (1 + np.max(np.abs(seg[e]))):
                    vios.append(dict(sig="value:refine:degree", tags=tags, detail="the %d refined values of integrator step %d (incl. its end state) do not lie on one polynomial of degree %d (residual %g)" % (R + 1, i, deg, fit)))
                    break
            polys.append(ps)
            if vios: break
        if vios:
            break
        # other refinements sample the same polynomials
        for rr in (2, 3, 5):
            Xr_ = q["Xf%d" % rr].reshape(nx, -1, order="F")
            for i in range(N * M):
                for j in range(rr):
                    want = np.array([polys[i][e](j / rr) for e in range(nx)])
                    if not NL.close(Xr_[:, i * rr + j], want, 1e-7):
                        vios.append(dict(sig="value:refine:inconsistent", tags=tags + ["refine=%d" % rr], detail="refine=%d and refine=7 disagree inside integrator step %d" % (rr, i))); break
                if vios: break
            if vios: break
        if vios:
            break
        # (3) slopes: explicit schemes at the step start; collocation at every collocation time, through the helper states
        for i in range(N * M):
            k, l = i // M, i % M
            h = ti[i + 1] - ti[i]
            if d["method"] != "DC":
                slope = np.array([polys[i][e].deriv()(0.0) / h for e in range(nx)])
                fx = tr.f(k, Xi[:, i], ti[i])
                evals += 1
                if not NL.close(slope, fx, 1e-6):
                    vios.append(dict(sig="value:slope:start", tags=tags, detail="initial slope of the step polynomial %s vs rhs at the step start %s (step %d)" % (np.round(slope, 6), np.round(fx, 6), i))); break
            else:
                col = tr.col
                Xr = q["Xr"].reshape(nx, -1, order="F")
                for j, tau in enumerate(col["tau"]):
                    val = np.array([polys[i][e](tau) for e in range(nx)])
                    xr = Xr[:, i * d["degree"] + j]
                    slope = np.array([polys[i][e].deriv()(tau) / h for e in range(nx)])
                    fx = tr.f(k, xr, ti[i] + tau * h, None)
                    evals += 1
                    if not NL.close(val, xr, 1e-7):
                        vios.append(dict(sig="value:colloc:through", tags=tags, detail="step polynomial at collocation time %d of step %d is %s, helper state %s" % (j, i, np.round(val, 6), np.round(xr, 6)))); break
                    if not NL.close(slope, fx, 1e-6):
                        vios.append(dict(sig="value:colloc:slope", tags=tags, detail="slope of the step polynomial at collocation time %d of step %d is %s, rhs %s" % (j, i, np.round(slope, 6), np.round(fx, 6)))); break
                if vios: break
        if vios:
            break
        # (4) exactness on polynomial solutions
        if d["rhs"] in ("poly1", "poly2", "polyd"):
            exact_ok = {"poly1": True, "poly2": deg >= 2, "polyd": True}[d["rhs"]]     # degree <= 1, 2, d for euler, rk, collocation
            if exact_ok:
                for e in range(nx):
                    want = exact_solution(d, Xc[e, 0], tc[0], tf)
                    if not NL.close(Xf[e], want, 1e-8):
                        vios.append(dict(sig="value:exactness", tags=tags, detail="the true solution is a polynomial of degree the scheme reproduces, but the refined sample deviates by %g" % np.max(np.abs(Xf[e] - want)))); break
        if vios:
            break
        # (5) sampler
        try:
            smp = st.sampler(x)
            gist = np.concatenate([w, nlp.p0])
            lattice = list(ti) + [0.5 * (ti[i] + ti[i + 1]) for i in range(N * M)] + [ti[i] + (ti[i + 1] - ti[i]) / math.sqrt(2 + i) for i in range(N * M)] + [tc[0], tc[-1]]
            for tq in lattice:
                got = np.array(smp(gist, float(tq))).reshape(-1)
                i = min(int(np.searchsorted(ti, tq + 1e-13, side="right") - 1), N * M - 1)
                i = max(i, 0)
                sloc = (tq - ti[i]) / (ti[i + 1] - ti[i])
                want = np.array([polys[i][e](sloc) for e in range(nx)])
                evals += 1
                if not NL.close(got, want, 1e-7):
                    vios.append(dict(sig="value:sampler", tags=tags, detail="sampler at t=%g gives %s, the polynomial of integrator step %d gives %s" % (tq, np.round(got, 6), i, np.round(want, 6)))); break
            # the numeric route: sol.sampler(e)(t) at the solution's own gist (a solver-free solution object stands for
            # the solver's decision vector) = the symbolic sampler at (gist, t); sol.gist = [decision vector; parameters]
            if not vios:
                from rockit.solution import OcpSolution
                from rockit.direct_method import OptiSolWrapper
                from .c07 import FakeSol
                sol = OcpSolution(OptiSolWrapper(nlp.opti, FakeSol(nlp, w)), r.ocp)
                ssm = sol.sampler(x)
                g_sol = np.asarray(sol.gist, dtype=float).reshape(-1)
                if g_sol.shape != gist.shape or not NL.close(g_sol, gist, 1e-12):
                    vios.append(dict(sig="value:sol.gist", tags=tags, detail="sol.gist differs from [decision vector; parameter values] (%d vs %d entries)" % (g_sol.size, gist.size)))
                for tq in lattice[1::2]:
                    got = np.array(ssm(float(tq))).reshape(-1)
                    want = np.array(smp(gist, float(tq))).reshape(-1)
                    evals += 1
                    if got.shape != want.shape or not NL.close(got, want, 1e-9):
                        vios.append(dict(sig="value:sol.sampler", tags=tags, detail="sol.sampler(x)(%g) = %s, sampler(x)(gist, t) = %s" % (tq, np.round(got, 6), np.round(want, 6)))); break
            # a second sampler: the control of the interval that contains the query time, time itself, their product with
            # the state polynomial (query times strictly inside integrator steps: no ambiguity at the nodes)
            if d["control"] != "none" and np.all(np.diff(ti) > 1e-9):
                # (free / localized grids: a generic decision vector need not order the nodes; the interval that
                # contains a query time is only defined on an increasing grid)
                u0 = ca.vec(s["u"])[0]
                smp2 = st.sampler(ca.vertcat(u0, st.t, u0 * x[0] + st.t))
                Uq = np.array(ca.Function("u", [nlp.x, nlp.p], [st.sample(u0, grid="control-")[1]])(w, nlp.p0)).reshape(-1)
                for i in range(N * M):
                    for frac in (0.5, 1 / math.sqrt(2 + i)):
                        tq = ti[i] + frac * (ti[i + 1] - ti[i])
                        got = np.array(smp2(gist, float(tq))).reshape(-1)
                        want = np.array([Uq[i // M], tq, Uq[i // M] * polys[i][0](frac) + tq])
                        evals += 1
                        if not NL.close(got, want, 1e-7):
                            vios.append(dict(sig="value:sampler:control", tags=tags, detail="sampler of [u, t, u*x+t] at t=%g (integrator step %d, control interval %d) gives %s, expected %s" % (tq, i, i // M, np.round(got, 6), np.round(want, 6)))); break
                    if vios: break
            # the list form of the sampler with expressions of different shapes and a vector of query times: every
            # output is the corresponding single-expression sampler, in its own shape
            if nx >= 2 and N * M >= 2:
                tq_vec = np.array([ti[0] + 0.3 * (ti[1] - ti[0]), ti[1] + 0.6 * (ti[2] - ti[1])])
                exprs_l = [x, x.T, ca.vertcat(x[0] * x[1], st.t, x[1])]
                outs_l = st.sampler(exprs_l)(gist, tq_vec)
                for e_, o_ in zip(exprs_l, outs_l):
                    single = np.array([np.array(st.sampler(e_)(gist, float(t_))).reshape(e_.shape, order="F") for t_ in tq_vec])
                    o_ = np.asarray(o_, dtype=float)
                    want_l = single.reshape(o_.shape) if o_.size == single.size and o_.shape != single.shape and set(o_.shape) - {1} == set(single.shape) - {1} else single
                    if o_.shape != want_l.shape and np.squeeze(o_).shape == np.squeeze(want_l).shape:
                        o_, want_l = np.squeeze(o_), np.squeeze(want_l)
                    if o_.shape != want_l.shape or not NL.close(o_, want_l, 1e-9):
                        vios.append(dict(sig="value:sampler:list", tags=tags, detail="sampler([x, x', [x0*x1, t, x1]]) over 2 query times: the output for an expression of shape %s is %s, the single-expression sampler gives %s" % (e_.shape, np.round(o_, 5).tolist(), np.round(want_l, 5).tolist())))
                        break
            # vector of query times and a second expression (time itself and a product with the control)
            got = np.array(smp(gist, np.array(ti[:3] if len(ti) >= 3 else ti)))
            if got.shape[0] != len(ti[:3]):
                vios.append(dict(sig="value:sampler:shape", tags=tags, detail="sampler over %d times returned shape %s" % (len(ti[:3]), got.shape)))
        except Exception as e:
            fr = core.rockit_frame(sys.exc_info()[2])
            if fr is None and not isinstance(e, (RuntimeError, AssertionError)):
                raise
            vios.append(dict(sig="exception:sampler:%s" % (fr or type(e).__name__), tags=tags, detail="%s: %s" % (type(e).__name__, str(e)[:160])))
        outcome.append(np.round(Xf[:, :4], 6).tolist())
        if vios:
            break
    seen = set(); uniq = []
    for v in vios:
        if v["sig"] not in seen:
            seen.add(v["sig"]); uniq.append(v)
    return dict(violations=uniq, evaluations=max(evals, 1), traces=1, transitions=max(1, len(case.get("dev", []))), outcome=explore.sha([_trans.compact(d), outcome]), nontrivial=len(outcome) > 0,
                counts=dict(feasible_points=len(outcome)), sample=dict(d=_trans.compact(d), dev=case.get("dev")))


def convergence_cases():
    return []


def describe(tier):
    return dict(
        rule="deviation-bounded enumeration over method/intg/degree(1..5)/scheme/N/M/grid/rhs/state/horizon/per-interval parameter plus every scheme x M x grid x {nonlinear time-dependent, degree-1, degree-2, degree-d solution} table; at two dynamically feasible decision vectors (min-norm Newton on the real equality rows): thinning (refine r -> integrator -> control, times and values, r=1..7), equal subdivision of every step, the 8 values of refine=7 on one polynomial of the scheme's degree incl. the step's end state, other refinements on the same polynomial, initial slope = rhs (explicit schemes) / through the helper states with slope = rhs at every collocation time (collocation), exactness on polynomial solutions, sampler(gist,t) = that polynomial on a lattice of query times (grid times, midpoints, irrational offsets, both ends); sampler of [u, t, u*x+t] = the containing interval's control, the query time and their combination with the state polynomial; a user quadrature state x every scheme x M x grid: thinning of its refined samples, closing value, one polynomial of the scheme's degree per step (shooting methods), refinements consistent; DAE x degree 1..4 x scheme x M x N x grid under DirectCollocation: sampler and refined samples of z and z*x = the degree d-1 polynomial through the step's collocation values of z; histories (refined samples and sampler taken, set_T / set_t0, taken again) = fresh Ocp",
        bound="k<=%d deviations + scheme table" % (3 if tier == "thorough" else 2),
        assumptions=["feasible points are found by Newton on the real rows (non-converged points are skipped and counted)", "rhs values come from the reference interpreter"])

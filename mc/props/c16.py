"""C16  der() is the total time derivative along the declared dynamics."""
import itertools, math
import numpy as np
from .. import program as P, explore, core, nlp as NL
from ..backends import NP, CA, DU, Dual
from . import _trans
from .c07 import ev, atoms_of

ID = "C16"
CHUNK = 2


def expressions(depth):
    A = lambda n: ["atom", n]
    at = ["x0", "x1", "t", "pg", "vg", "y"]
    out = [A(n) for n in at]
    un = ["sin", "sq", "neg", "aff"]
    for n in at:
        for o in un:
            out.append([o, A(n)])
    for a, b in itertools.combinations(at, 2):
        out.append(["mul", A(a), A(b)])
        out.append(["add", A(a), ["sin", A(b)]])
        out.append(["sub", ["sq", A(a)], A(b)])
    if depth >= 3:
        for a, b, c in itertools.combinations(at, 3):
            out.append(["add", ["mul", A(a), A(b)], ["sq", A(c)]])
            out.append(["mul", ["sin", ["add", A(a), A(b)]], A(c)])
            out.append(["sin", ["mul", A(a), ["sub", A(b), A(c)]]])
    # vector valued
    out.append(["vcat", [A("x0"), ["mul", A("x1"), A("t")]]])
    out.append(["vcat", [["sin", A("x0")], ["sq", A("t")], ["mul", A("pg"), A("x1")]]])
    out.append(["atom", "x"])
    return out


def atom16(m, s, name):
    if name == "y": return s["y"] if m is not DU else s["y"]
    from .c07 import atom
    return atom(m, s, name)


def ev16(m, s, a):
    """AST evaluation incl. the DU backend (scalars; vcat -> list)"""
    k = a[0]
    if k == "atom":
        if a[1] == "y": return s["y"]
        if a[1] == "x" and m is DU: return list(s["x"])
        if a[1] in ("x0", "x1") and m is DU: return s["x"][int(a[1][1])]
        if m is DU: return s[a[1]]
        from .c07 import atom
        return atom(m, s, a[1])
    if m is DU:
        if k == "sin": return DU.sin(ev16(m, s, a[1]))
        if k == "sq":
            v = ev16(m, s, a[1]); return v * v
        if k == "neg": return -ev16(m, s, a[1])
        if k == "aff": return 2.0 * ev16(m, s, a[1]) + 1.0
        if k == "mul": return ev16(m, s, a[1]) * ev16(m, s, a[2])
        if k == "add": return ev16(m, s, a[1]) + ev16(m, s, a[2])
        if k == "sub": return ev16(m, s, a[1]) - ev16(m, s, a[2])
        if k == "vcat":
            out = []
            for e in a[1]:
                v = ev16(m, s, e)
                out += v if isinstance(v, list) else [v]
            return out
        raise KeyError(k)
    # casadi / numpy: reuse c07's interpreter with y support
    if k in ("sin", "sq", "neg", "aff"):
        v = ev16(m, s, a[1])
        return {"sin": m.sin(v) if k == "sin" else None, "sq": v * v, "neg": -v, "aff": 2.0 * v + 1.0}[k] if k != "sin" else m.sin(v)
    if k == "mul": return ev16(m, s, a[1]) * ev16(m, s, a[2])
    if k == "add": return ev16(m, s, a[1]) + ev16(m, s, a[2])
    if k == "sub": return ev16(m, s, a[1]) - ev16(m, s, a[2])
    if k == "vcat":
        import casadi as ca
        return ca.vertcat(*[ev16(m, s, e) for e in a[1]])
    raise KeyError(k)


MODELS = [
    dict(rhs="nl_t", control="one"), dict(rhs="nl", control="one"), dict(rhs="lin_t", control="two"), dict(rhs="nl_t", control="none"),
    dict(rhs="nl_t", control="one", pc="control", vc="control"),
]


def cases(tier):
    depth = 3 if tier == "thorough" else 2
    out = []
    ex = expressions(depth)
    for mi, mdl in enumerate(MODELS):
        d = P.case(state="vec2", second=True, pg="scalar", vg=True, **mdl)
        d["cons"] = [P.con("bc0")]; d["obj"] = ["mayer_tf"]
        n = 60
        for i in range(0, len(ex), n):
            out.append(dict(kind="expr", d=d, exprs=ex[i:i + n], model=mi))
    # B-spline signals: der / der(der) of a spline parameter with known coefficients vs the analytic derivative (machinery of C17)
    from ..common import have_networkx
    if have_networkx():
        for dd in (1, 2, 3, 4):
            for N in (2, 3):
                for g in ("uniform", "geom"):
                    out.append(dict(kind="signal", d=dd, N=N, grid=g, method="Spline", width=1, M=1, combo="param", with_der=True))
    for order in (0, 1, 2, 3, 4):
        for what in ("parameter", "variable"):
            out.append(dict(kind="signal_over", order=order, what=what))
    for order in (0, 1, 2, 3, 4):
        for meth in ("SS", "MS", "DC"):
            for N in (2, 3):
                out.append(dict(kind="chain", order=order, method=meth, N=N, M=2 if N == 2 else 1))
    return out


def run_expr(case):
    import casadi as ca, sys
    d = case["d"]
    r = P.declare(d, solver=False, method=False)
    st, s = r.st, r.sym
    tags = _trans.tags_of(d)
    vios = []
    # inputs of the der() expression
    ins = [s["x"], s["y"], s["t"], s["pg"], s["vg"]] + ([s["u"]] if d["control"] != "none" else []) + ([s["pc"]] if d["pc"] else []) + ([s["vc"]] if d["vc"] else [])
    evals = 0
    nu = P.nu_of(d)
    pts = []
    for k in range(3):
        g = NL.generic(10, k, core.get_seed() if hasattr(core, "get_seed") else 0, lo=-0.9, hi=1.4)
        pts.append(g)
    hashes = []
    kept = []
    for ast in case["exprs"]:
        e = ca.MX(ev16(CA, s, ast))
        kept.append((ast, e))
        try:
            de = st.der(e)
            F = ca.Function("d", ins, [de], {"allow_free": True})
            if F.has_free():
                vios.append(dict(sig="value:der:free", tags=tags, detail="der(%s) mentions symbols outside the model: %s" % (ast, F.get_free()))); continue
        except Exception as ex:
            fr = core.rockit_frame(sys.exc_info()[2])
            vios.append(dict(sig="exception:der:%s" % (fr or type(ex).__name__), tags=tags, detail="%s: %s (%s)" % (type(ex).__name__, str(ex)[:150], ast))); continue
        for g in pts:
            xv = g[0:2]; yv = g[2]; tv = g[3] + 1.0; pg = g[4]; vg = g[5]; uv = g[6:6 + nu]; pc = g[8]; vc = g[9]
            env = {"x": xv.reshape(2, 1), "y": yv, "t": tv, "pg": pg, "vg": vg, "T": 1.9, "t0": 0.7}
            if nu: env["u"] = uv.reshape(-1, 1)
            if d["pc"]: env["pc"] = pc
            if d["vc"]: env["vc"] = vc
            f = P.rhs(NP, env, d)
            fx = np.asarray(f["x"], dtype=float).reshape(-1); fy = float(np.asarray(f["y"]).reshape(-1)[0])
            denv = {"x": [Dual(xv[0], fx[0]), Dual(xv[1], fx[1])], "y": Dual(yv, fy), "t": Dual(tv, 1.0), "pg": Dual(pg, 0.0), "vg": Dual(vg, 0.0)}
            want = ev16(DU, denv, ast)
            want = np.array([w_.b for w_ in (want if isinstance(want, list) else [want])])
            args = [xv, yv, tv, pg, vg] + ([uv] if nu else []) + ([pc] if d["pc"] else []) + ([vc] if d["vc"] else [])
            got = np.array(F(*args)).reshape(-1)
            evals += 1
            if got.shape != want.shape or not NL.close(got, want, 1e-10):
                vios.append(dict(sig="value:der", tags=tags, detail="der(%s) = %s, total derivative along the dynamics = %s" % (ast, np.round(got, 8), np.round(want, 8))))
                break
        hashes.append(str(ast))
    # history: the ODE of x is declared again (twice the old right-hand side); der() must follow the new dynamics,
    # also for expressions whose derivative was asked for before
    if not vios:
        try:
            f_old = P.rhs(CA, s, d)
            st.set_der(s["x"], 2 * f_old["x"])
            for ast, e in kept[:12]:
                de = st.der(e)          # the very same expression object as before the re-declaration
                F = ca.Function("d", ins, [de], {"allow_free": True})
                g = pts[0]
                xv = g[0:2]; yv = g[2]; tv = g[3] + 1.0; pg = g[4]; vg = g[5]; uv = g[6:6 + nu]; pc = g[8]; vc = g[9]
                env = {"x": xv.reshape(2, 1), "y": yv, "t": tv, "pg": pg, "vg": vg, "T": 1.9, "t0": 0.7}
                if nu: env["u"] = uv.reshape(-1, 1)
                if d["pc"]: env["pc"] = pc
                if d["vc"]: env["vc"] = vc
                f = P.rhs(NP, env, d)
                fx = 2 * np.asarray(f["x"], dtype=float).reshape(-1); fy = float(np.asarray(f["y"]).reshape(-1)[0])
                denv = {"x": [Dual(xv[0], fx[0]), Dual(xv[1], fx[1])], "y": Dual(yv, fy), "t": Dual(tv, 1.0), "pg": Dual(pg, 0.0), "vg": Dual(vg, 0.0)}
                want = ev16(DU, denv, ast)
                want = np.array([w_.b for w_ in (want if isinstance(want, list) else [want])])
                args = [xv, yv, tv, pg, vg] + ([uv] if nu else []) + ([pc] if d["pc"] else []) + ([vc] if d["vc"] else [])
                got = np.array(F(*args)).reshape(-1)
                evals += 1
                if got.shape != want.shape or not NL.close(got, want, 1e-10):
                    vios.append(dict(sig="value:der:after-redeclared-ode", tags=tags, detail="after set_der(x, 2*rhs): der(%s) = %s, along the new dynamics %s" % (ast, np.round(got, 8), np.round(want, 8))))
                    break
        except Exception as ex:
            fr = core.rockit_frame(sys.exc_info()[2])
            vios.append(dict(sig="exception:der:redeclare:%s" % (fr or type(ex).__name__), tags=tags, detail="%s: %s" % (type(ex).__name__, str(ex)[:150])))
    seen = set(); uniq = []
    for v in vios:
        if v["sig"] not in seen:
            seen.add(v["sig"]); uniq.append(v)
    return dict(violations=uniq, evaluations=max(evals, 1), traces=1, transitions=len(case["exprs"]), outcome=explore.sha([case["model"], hashes[:3], len(hashes)]), nontrivial=True,
                sample=dict(model=_trans.compact(d), first_expr=case["exprs"][0], n=len(case["exprs"])))


def run_chain(case):
    """control of order k: der walks down the chain; members are continuous piecewise polynomials;
    der^k is the piecewise-constant decision; der^(k+1) raises"""
    import rockit, casadi as ca, sys
    k, meth, N, M = case["order"], case["method"], case["N"], case["M"]
    tags = ["order=%d" % k, "method=%s" % meth, "N=%d" % N, "M=%d" % M]
    vios = []
    ocp = rockit.Ocp(t0=0.4, T=1.7)
    x = ocp.state()
    c = ocp.control(order=k)
    ocp.set_der(x, -0.5 * x + c)
    ocp.subject_to(ocp.at_t0(x) == 0.3)
    chain = [c]
    try:
        for j in range(k):
            chain.append(ocp.der(chain[-1]))
    except Exception as e:
        return dict(violations=[dict(sig="exception:der:chain", tags=tags, detail="%s: %s" % (type(e).__name__, str(e)[:150]))], evaluations=1, traces=1, transitions=k, outcome="exc", nontrivial=True, sample=case)
    # structure
    for j, m in enumerate(chain):
        is_state = any(ca.is_equal(m, s_) for s_ in ocp.states)
        is_ctrl = any(ca.is_equal(m, s_) for s_ in ocp.controls)
        if j < k and not is_state:
            vios.append(dict(sig="value:chain:structure", tags=tags, detail="der^%d of an order-%d control is not a state" % (j, k)))
        if j == k and not is_ctrl:
            vios.append(dict(sig="value:chain:structure", tags=tags, detail="der^%d of an order-%d control is not the piecewise-constant control" % (j, k)))
    raised = False
    try:
        ocp.der(chain[-1])
    except Exception:
        raised = True
    if not raised:
        vios.append(dict(sig="accepted:der-beyond-order", tags=tags, detail="der^%d of an order-%d control did not raise" % (k + 1, k)))
    # ... and so does every expression that contains the piecewise-constant member (its derivative does not exist),
    # whatever else the expression depends on (a state, explicit time)
    u_ = chain[-1]
    for name, e_ in (("u*x", u_ * x), ("t*u", ocp.t * u_), ("(1+t)*u", (1 + ocp.t) * u_), ("sin(t)*x*u", ca.sin(ocp.t) * x * u_), ("u+t", u_ + ocp.t), ("x+u", x + u_)):
        try:
            ocp.der(e_)
            vios.append(dict(sig="accepted:der-of-control-expression", tags=tags, detail="der(%s) with u the piecewise-constant member of an order-%d control did not raise" % (name, k)))
            break
        except Exception:
            pass
    for j in range(k):
        ocp.subject_to(ocp.at_t0(chain[j]) == 0.2 + 0.1 * j)
    ocp.add_objective(ocp.integral(x * x + 0.1 * chain[-1] ** 2))
    ocp.solver("ipopt", {"ipopt.print_level": 0, "print_time": False, "ipopt.sb": "yes"})
    mm = {"SS": rockit.SingleShooting(N=N, M=M), "MS": rockit.MultipleShooting(N=N, M=M), "DC": rockit.DirectCollocation(N=N, M=M, degree=max(k, 2))}[meth]
    ocp.method(mm)
    try:
        nlp = NL.Nlp(ocp)
        # a dynamically feasible point: SingleShooting is feasible by construction; for MS/DC solve the dynamics
        rb = {}
        for j, m in enumerate(chain):
            rb["c%d" % j] = ocp.sample(m, grid="integrator", refine=4)[1] if j < k else ocp.sample(m, grid="control-")[1]
        rb["t"] = ocp.sample(x, grid="integrator", refine=4)[0]
        rb["tc"] = ocp.sample(x, grid="control")[0]
        nlp.set_readbacks(rb)
        if meth == "SS":
            w = NL.generic(nlp.nx, 0, 0, lo=-0.8, hi=1.1)
        else:
            # make the point feasible: Newton on the real equality rows with the controls fixed (linear chain dynamics)
            w = NL.generic(nlp.nx, 0, 0, lo=-0.8, hi=1.1)
            f, g, lb, ub = nlp.eval(w)
            eq = [i for i in range(nlp.ng) if np.isfinite(lb[i]) and abs(lb[i] - ub[i]) < 1e-13]
            G = lambda w_: np.array([nlp.eval(w_)[1][i] - lb[i] for i in eq])
            for it in range(6):
                g0 = G(w)
                if np.max(np.abs(g0)) < 1e-11: break
                J = np.zeros((len(eq), nlp.nx))
                for i in range(nlp.nx):
                    w1 = w.copy(); w1[i] += 1e-6
                    J[:, i] = (G(w1) - g0) / 1e-6
                w = w - np.linalg.lstsq(J, g0, rcond=None)[0]
            if np.max(np.abs(G(w))) > 1e-8:
                return dict(violations=vios, evaluations=1, traces=1, transitions=k, outcome="infeasible", nontrivial=False, counts=dict(inconclusive=1), sample=case)
        q = nlp.read(w, extra=nlp.extra0)
        t = q["t"].reshape(-1); tc = q["tc"].reshape(-1)
        U = q["c%d" % k].reshape(-1)
        # Taylor: on every control interval, member j is a polynomial of degree k-j whose derivatives are the
        # higher members: c_j(t) = sum_m c_{j+m}(t_k) (t-t_k)^m / m!   (exact for the built-in schemes when k<=4)
        for j in range(k):
            cj = q["c%d" % j].reshape(-1)
            for i, ti in enumerate(t):
                kk = min(int(np.searchsorted(tc, ti + 1e-12, side="right") - 1), N - 1)
                if abs(ti - tc[kk]) < 1e-12 and kk > 0 and i > 0:
                    pass
                i0 = int(np.argmin(np.abs(t - tc[kk])))
                h = ti - tc[kk]
                val = 0.0
                for m_ in range(0, k - j + 1):
                    hi = (q["c%d" % (j + m_)].reshape(-1)[i0] if j + m_ < k else U[kk])
                    val += hi * h ** m_ / math.factorial(m_)
                if abs(val - cj[i]) > 1e-7 * (1 + abs(val)):
                    vios.append(dict(sig="value:chain:polynomial", tags=tags, detail="der^%d at t=%g is %g, Taylor polynomial of the chain gives %g" % (j, ti, cj[i], val)))
                    break
            else:
                continue
            break
    except Exception as e:
        fr = core.rockit_frame(sys.exc_info()[2])
        if fr is None and not isinstance(e, (RuntimeError, AssertionError)):
            raise
        vios.append(dict(sig="exception:chain:%s" % (fr or type(e).__name__), tags=tags, detail="%s: %s" % (type(e).__name__, str(e)[:200])))
    return dict(violations=vios, evaluations=1, traces=1, transitions=k + 1, outcome=explore.sha(case), nontrivial=True, sample=case)


def run_signal_over(case):
    """a B-spline signal of order k has exactly k derivatives: der^j is a new signal for j<=k, der^(k+1) raises"""
    import rockit
    k, what = case["order"], case["what"]
    tags = ["order=%d" % k, "bspline_%s" % what]
    vios = []
    ocp = rockit.Ocp(T=2)
    x = ocp.state(); ocp.set_der(x, -x)
    sgn = ocp.parameter(grid="bspline", order=k) if what == "parameter" else ocp.variable(grid="bspline", order=k)
    cur = sgn
    try:
        for j in range(k):
            cur = ocp.der(cur)
    except Exception as e:
        vios.append(dict(sig="exception:der:signal-chain", tags=tags, detail="der^%d of an order-%d B-spline %s raised %s: %s" % (j + 1, k, what, type(e).__name__, str(e)[:120])))
        return dict(violations=vios, evaluations=1, traces=1, transitions=k, outcome="exc", nontrivial=True, sample=case)
    for name, e_ in (("der", cur), ("expression", 2 * cur + x)):
        try:
            ocp.der(e_)
            vios.append(dict(sig="accepted:der-beyond-order:signal", tags=tags, detail="der^%d of an order-%d B-spline %s (%s) did not raise" % (k + 1, k, what, name)))
            break
        except Exception:
            pass
    return dict(violations=vios, evaluations=2, traces=1, transitions=k + 1, outcome=explore.sha(case), nontrivial=True, sample=case)


def run_case(case):
    if case["kind"] == "signal_over":
        return run_signal_over(case)
    if case["kind"] == "signal":
        from . import c17
        out = c17.run_signal(case)
        out["violations"] = [v for v in out["violations"] if ":der" in v["sig"] or "der" in v["sig"]]
        return out
    return run_expr(case) if case["kind"] == "expr" else run_chain(case)


def describe(tier):
    return dict(
        rule="(c) der and der(der) of B-spline parameters of order 1..4 sampled under SplineMethod vs the analytic spline derivative in physical time; (a) every expression AST up to depth %s over {x_0, x_1, y, t, global parameter, global variable} (unary sin/square/neg/affine, binary mul/add/sub, vector-valued) x 5 ODE models (time-dependent, two controls, no control, per-interval parameter and variable; global parameter AND variable in the rhs) x 3 generic points: ocp.der(e) = forward-mode dual-number derivative of e along (rhs, 1) computed by the reference's own arithmetic, again after the ODE is declared a second time (history: der, set_der, der); (d) B-spline parameters / variables of order 0..4: der^(k+1) raises; (b) controls of order 0..4 x method x N,M: der walks the chain (states, then the control), der^(k+1) raises and so does der of every expression from a 6-element alphabet containing the piecewise-constant member (with a state, with explicit time), and at a dynamically feasible point every chain member sampled with refine=4 equals the Taylor polynomial built from the higher members" % ("3" if tier == "thorough" else "2"),
        bound="AST depth %d; control order <=4" % (3 if tier == "thorough" else 2),
        assumptions=["CasADi Function evaluation is trusted", "B-spline signal derivatives use the scipy oracle of C17 (SplineMethod; under sampling methods der of a signal is a recorded finding of C17)"])

"""C17  B-spline signals and SplineMethod trajectories are exact splines of the model."""
import itertools, math
import numpy as np
from .. import explore, core, nlp as NL, reftrans as RT
from ..common import have_networkx

ID = "C17"
CHUNK = 2


def norm_grid(kind, N):
    if kind == "uniform":
        return np.linspace(0, 1, N + 1)
    if kind == "geom":
        return np.array(RT.normalized("geom", {"g": 3}, N))
    if kind == "function":
        return np.array(RT.normalized("function", {}, N))
    raise KeyError(kind)


def rockit_grid(kind):
    from rockit.sampling_method import UniformGrid, GeometricGrid, FunctionGrid
    from .. import program as P
    return {"uniform": UniformGrid(), "geom": GeometricGrid(3), "function": FunctionGrid(P.user_grid_function)}[kind]


def clamped(xi, d):
    return np.concatenate([[xi[0]] * d, xi, [xi[-1]] * d])


def scipy_basis(xi, d, x):
    """(N+d) x len(x) matrix of the clamped B-spline basis of degree d on breakpoints xi (independent Cox-de Boor)"""
    from scipy.interpolate import BSpline
    t = clamped(xi, d)
    if d == 0:
        # piecewise constant, right-continuous, last interval closed
        n = len(xi) - 1
        B = np.zeros((n, len(x)))
        for j, xv in enumerate(x):
            k = min(int(np.searchsorted(xi, xv, side="right") - 1), n - 1)
            B[max(k, 0), j] = 1.0
        return B
    t_full = t          # [xi0]*d + xi + [xiN]*d: end knots have multiplicity d+1
    n = len(t_full) - d - 1
    B = np.zeros((n, len(x)))
    for i in range(n):
        c = np.zeros(n); c[i] = 1.0
        B[i, :] = BSpline(t_full, c, d, extrapolate=False)(np.clip(x, xi[0], xi[-1]))
    B = np.nan_to_num(B)
    # right end point: limit from the left
    for j, xv in enumerate(x):
        if abs(xv - xi[-1]) < 1e-14:
            B[:, j] = 0.0; B[-1, j] = 1.0
    return B


def scipy_spline(xi, d, coeff):
    """callable spline and its derivatives for coefficient row vector(s) coeff (rows x (N+d))"""
    from scipy.interpolate import BSpline
    coeff = np.atleast_2d(coeff)

    def val(x, nu=0):
        x = np.atleast_1d(x)
        if d == 0:
            return coeff @ scipy_basis(xi, 0, x) if nu == 0 else np.zeros((coeff.shape[0], len(x)))
        t_full = np.concatenate([[xi[0]] * (d + 1), xi[1:-1], [xi[-1]] * (d + 1)])
        out = []
        for r in range(coeff.shape[0]):
            sp = BSpline(t_full, coeff[r], d, extrapolate=True)
            if nu:
                sp = sp.derivative(nu) if nu <= d else None
            if sp is None:
                out.append(np.zeros(len(x)))
            else:
                xx = np.clip(x, xi[0], xi[-1])
                # evaluate the right end from the left
                xx = np.where(np.abs(xx - xi[-1]) < 1e-14, xi[-1] - 0.0, xx)
                out.append(sp(xx))
        return np.array(out)
    return val


def cases(tier):
    out = []
    Ns = range(1, 9) if tier == "thorough" else (1, 2, 3, 5, 8)
    for d in range(0, 5):
        for N in Ns:
            for g in ("uniform", "geom", "function"):
                out.append(dict(kind="micro", d=d, N=N, grid=g))
    if have_networkx():
        meths = ("Spline", "MS", "DC")
    else:
        meths = ("MS", "DC")
    for d in range(0, 5):
        for N in ((1, 2, 3, 4) if tier != "thorough" else (1, 2, 3, 4, 5, 6)):
            for g in ("uniform", "geom"):
                for meth in meths:
                    for width in (1, 2):
                        if tier != "thorough" and width == 2 and (N, g) not in ((2, "geom"), (3, "uniform")):
                            continue
                        for combo in ("param", "var", "both"):
                            if combo == "both" and N > 2:
                                continue
                            ders = (True,) if meth == "Spline" else ((False, True) if (combo == "param" and d >= 1 and width == 1) else (False,))
                            for wd in ders:
                                out.append(dict(kind="signal", d=d, N=N, grid=g, method=meth, width=width, M=2 if N == 2 else 1, combo=combo, with_der=wd))
                                if combo == "param" and N in (2, 3) and g == "geom":
                                    # the coefficients of the parameter are changed after a first transcription
                                    out.append(dict(kind="signal", d=d, N=N, grid=g, method=meth, width=width, M=2 if N == 2 else 1, combo=combo, with_der=wd, late=True))
    if have_networkx():
        chains = [(1,), (2,), (3,), (4,), (1, 2), (2, 2), (3, 1), (2, 3), (1, 2, 3), (2, 1, 2)]
        for ch in chains:
            for N in ((2, 3) if tier != "thorough" else (2, 3, 4)):
                for g in ("uniform", "geom"):
                    for vec in (False, True):
                        if vec and len(ch) > 1 and tier != "thorough":
                            continue
                        out.append(dict(kind="spline", chains=list(ch), N=N, grid=g, vec=vec))
        cons = [("state", 0.0, None, 0.9), ("state", 0.3, -1.0, 0.8), ("last", 0.3, -1.0, 2.0), ("last", -0.2, None, 0.7), ("control", 0.25, -1.2, 1.1), ("control", 0.0, None, 0.9)]
        for ch in [(1,), (2,), (3,), (2, 1)]:
            for N in (2, 3):
                for g in ("uniform", "geom"):
                    for con in cons:
                        out.append(dict(kind="spline_inf", chains=list(ch), N=N, grid=g, con=list(con)))
        # linear systems next to the integrator chains: an affine offset (constant / parametric), a gain, a feedback term.
        # SplineMethod either represents the declared model or refuses it.
        for model in ("u+1", "u+p", "x2+1", "2u", "u-x", "u+0"):
            for N in (2, 3):
                for g in ("uniform", "geom"):
                    out.append(dict(kind="spline_affine", model=model, N=N, grid=g))
    return out


# ------------------------------------------------------------------------------------------

def run_micro(case):
    import casadi as ca
    from rockit.splines.micro_spline import eval_on_knots, get_greville_points, bspline_derivative
    d, N, g = case["d"], case["N"], case["grid"]
    tags = ["d=%d" % d, "N=%d" % N, "grid=%s" % g]
    xi = norm_grid(g, N)
    XI = ca.DM(xi).T
    vios = []
    evals = 0
    # basis at the knots
    k, B = eval_on_knots(XI, d)
    k = np.array(k).reshape(-1); B = np.array(ca.DM(B))
    want = scipy_basis(xi, d, k)
    if B.shape != want.shape or not NL.close(B, want, 1e-10):
        vios.append(dict(sig="value:basis:knots", tags=tags, detail="eval_on_knots differs from Cox-de Boor at the knots (max %g)" % (np.max(np.abs(B - want)) if B.shape == want.shape else -1)))
    evals += B.size
    # refinements: r-1 interior sub-samples per interval, with and without edges, and arbitrary sub-grids
    for r in range(1, 6):
        for edges in (True, False):
            if r == 1 and not edges:
                continue
            k, B = eval_on_knots(XI, d, subsamples=r - 1, include_edges=edges) if r > 1 else eval_on_knots(XI, d)
            k = np.array(ca.DM(k)).reshape(-1); B = np.array(ca.DM(B))
            want = scipy_basis(xi, d, k)
            evals += B.size
            if B.shape != want.shape or not NL.close(B, want, 1e-10):
                vios.append(dict(sig="value:basis:refine", tags=tags + ["refine=%d" % r], detail="basis on the refined grid (r=%d, edges=%s) differs from Cox-de Boor" % (r, edges)))
                break
    taus = [0.0, 0.21, 0.5, 0.83]
    k, B = eval_on_knots(XI, d, subgrid=taus, include_edges=False)
    k = np.array(ca.DM(k)).reshape(-1); B = np.array(ca.DM(B))
    want = scipy_basis(xi, d, k)
    want_k = np.array([xi[i] * (1 - t) + t * xi[i + 1] for i in range(N) for t in taus])
    if B.shape != want.shape or not NL.close(B, want, 1e-10) or not NL.close(k, want_k, 1e-12):
        vios.append(dict(sig="value:basis:subgrid", tags=tags, detail="basis / locations on a sub-grid differ"))
    # Greville points: coefficients sit at knot averages
    G = np.array(ca.DM(get_greville_points(XI, d))).reshape(-1)
    t = clamped(xi, d)
    if d == 0:
        wantG = (xi[1:] + xi[:-1]) / 2
    else:
        wantG = np.array([np.mean(t[i + 1:i + d + 1]) for i in range(N + d)])
    if G.shape != wantG.shape or not NL.close(G, wantG, 1e-12):
        vios.append(dict(sig="value:greville", tags=tags, detail="Greville points %s vs knot averages %s" % (np.round(G, 5), np.round(wantG, 5))))
    # derivative coefficients
    if d >= 1:
        c = np.array([NL.generic(N + d, 0, 0, lo=-1, hi=1.5), NL.generic(N + d, 1, 0, lo=-1, hi=1.5)])
        dc = np.array(ca.DM(bspline_derivative(ca.DM(c), XI, d)))
        x = np.array([xi[i] * (1 - tt) + tt * xi[i + 1] for i in range(N) for tt in (0.1, 0.45, 0.9)])
        got = dc @ scipy_basis(xi, d - 1, x)
        want = scipy_spline(xi, d, c)(x, 1)
        if not NL.close(got, want, 1e-9):
            vios.append(dict(sig="value:derivative", tags=tags, detail="bspline_derivative vs analytic derivative: max diff %g" % np.max(np.abs(got - want))))
    return dict(violations=vios, evaluations=evals, traces=1, transitions=6, outcome=explore.sha(case), nontrivial=True, sample=case)


# ------------------------------------------------------------------------------------------

def run_signal(case):
    """a B-spline parameter with known coefficients and a B-spline variable inside a real OCP"""
    import rockit, casadi as ca, sys
    d, N, g, meth, width, M = case["d"], case["N"], case["grid"], case["method"], case["width"], case["M"]
    tags = ["d=%d" % d, "N=%d" % N, "grid=%s" % g, "method=%s" % meth, "width=%d" % width]
    vios = []
    t0, T = 0.4, 2.3
    ocp = rockit.Ocp(t0=t0, T=T)
    p = ocp.state(); v = ocp.state(); u = ocp.control()
    ocp.set_der(p, v); ocp.set_der(v, u)
    combo = case.get("combo", "both")
    tags.append("combo=%s" % combo)
    coeff = np.array([NL.generic(N + d, r, 0, lo=-1.0, hi=1.6) for r in range(width)])
    pb = vb = None
    ocp.subject_to(ocp.at_t0(p) == 0); ocp.subject_to(ocp.at_t0(v) == 0)
    ocp.subject_to(-1 <= (u <= 1))
    obj = ocp.at_tf((p - 1) ** 2)
    if combo in ("param", "both"):
        pb = ocp.parameter(width, grid="bspline", order=d)
        # (late: other coefficients first; the final ones are given after a first transcription)
        ocp.set_value(pb, -coeff - 0.3 if case.get("late") else coeff)
        obj = obj + ocp.sum((u - pb[0]) ** 2)
    if combo in ("var", "both"):
        vb = ocp.variable(width, grid="bspline", order=d)
        ocp.subject_to(vb[0] <= 5)
        obj = obj + ocp.sum((vb[0] - 0.3) ** 2 * (1 + u * u))
    ocp.add_objective(obj)
    ocp.solver("ipopt", {"ipopt.print_level": 0, "print_time": False, "ipopt.sb": "yes"})
    gr = rockit_grid(g)
    ocp.method({"Spline": lambda: rockit.SplineMethod(N=N, grid=gr), "MS": lambda: rockit.MultipleShooting(N=N, M=M, grid=gr), "DC": lambda: rockit.DirectCollocation(N=N, M=M, degree=2, grid=gr)}[meth]())
    xi = t0 + T * norm_grid(g, N)
    sp = scipy_spline(xi, d, coeff)
    evals = 0
    # derivative signals are declared before the first transcription (declaring one afterwards is rejected loudly)
    pre = {}
    if case.get("with_der"):
        tags.append("with_der")
    if pb is not None and d >= 1 and case.get("with_der"):
        try:
            pre["d1"] = ocp.der(pb)
            if d >= 2:
                pre["d2"] = ocp.der(pre["d1"])
            if meth == "Spline" and width == 1:
                # explicit time AND a signal in one expression: d/dt (t s^2) = s^2 + 2 t s s'
                pre["dmix"] = ocp.der(ocp.t * pb[0] * pb[0])
        except Exception as e:
            vios.append(dict(sig="exception:der:signal", tags=tags, detail="der of a B-spline parameter raised %s: %s" % (type(e).__name__, str(e)[:150])))
    try:
        if case.get("late") and pb is not None:
            tags.append("late_set_value")
            ocp.sample(p, grid="control")        # first transcription
            ocp.set_value(pb, coeff)
        nlp = NL.Nlp(ocp)
        w = NL.generic(nlp.nx, 0, 0, lo=-0.7, hi=1.3)

        def num(e):
            F = ca.Function("f", [nlp.x, nlp.p], [ca.MX(e)], {"allow_free": True})
            if F.has_free():
                fr = F.free_mx()
                F = ca.Function("f", [nlp.x, nlp.p] + fr, [ca.MX(e)])
                return np.array(F(w, nlp.p0, *[nlp.opti.debug.value(q, nlp.opti.initial()) for q in fr]))
            return np.array(F(w, nlp.p0))
        grids = []
        if meth == "Spline":
            grids = [("control", r) for r in (1, 2, 3, 4, 5)]
        else:
            grids = [("control", None)] + [("integrator", r) for r in (None, 1, 2, 3, 5)] + ([("integrator_roots", None)] if meth == "DC" else [])
        exprs = [("value", pb, 0)] if pb is not None else []
        if "d1" in pre: exprs.append(("der", pre["d1"], 1))
        if "d2" in pre: exprs.append(("der2", pre["d2"], 2))
        if "dmix" in pre: exprs.append(("der_mixed", pre["dmix"], "mix"))
        if d == 0 and pb is not None:
            raised = False
            try:
                ocp.der(pb)
            except Exception:
                raised = True
            # asking for a derivative that does not exist raises (C16)
            if not raised:
                vios.append(dict(sig="accepted:der-beyond-order:signal", tags=tags, detail="der of an order-0 B-spline signal did not raise"))
        for name, e, nu in exprs:
            for grid, r in grids:
                kw = {} if r is None else {"refine": r}
                gtag = "%s%s" % (grid, "" if r is None else ":refine=%d" % r)
                try:
                    ts, vs = ocp.sample(e, grid=grid, **kw)
                    ts = num(ts).reshape(-1); vs = np.atleast_2d(num(vs))
                    vs = vs.reshape(width, -1, order="F") if vs.shape[0] != width else vs
                except Exception as ex:
                    fr = core.rockit_frame(sys.exc_info()[2])
                    if fr is None and not isinstance(ex, (RuntimeError, AssertionError, AttributeError, NotImplementedError)):
                        raise
                    vios.append(dict(sig="exception:sample:%s:%s" % (name, fr or type(ex).__name__), tags=tags + ["grid=%s" % gtag], detail="%s: %s" % (type(ex).__name__, str(ex)[:160])))
                    continue
                if nu == "mix":
                    s0 = sp(ts, 0); s1 = sp(ts, 1)
                    want = s0 * s0 + 2 * ts.reshape(1, -1) * s0 * s1
                    nuo = 1
                else:
                    want = sp(ts, nu)
                    nuo = nu
                # derivative of a spline is discontinuous at breakpoints for low degree: compare away from ambiguous points
                mask = np.ones(len(ts), dtype=bool)
                if nuo >= d - 0 and nuo > 0 or d == 0:
                    for j, tv in enumerate(ts):
                        if np.min(np.abs(xi - tv)) < 1e-12:
                            mask[j] = False
                evals += int(mask.sum())
                if vs.shape[1] != len(ts):
                    vios.append(dict(sig="value:signal:shape", tags=tags + ["grid=%s" % gtag], detail="%d values for %d time stamps" % (vs.shape[1], len(ts))))
                    continue
                if not NL.close(vs[:, mask], want[:, mask], 1e-8):
                    bad = int(np.argmax(np.max(np.abs(vs - want) * mask, axis=0)))
                    vios.append(dict(sig="value:signal:%s" % name, tags=tags + ["grid=%s" % gtag], detail="%s of the B-spline parameter sampled on %s: at t=%g got %s, Cox-de Boor gives %s" % (name, gtag, ts[bad], np.round(vs[:, bad], 6), np.round(want[:, bad], 6))))
                    break
        # the variable: coefficients reported on 'gist' (SplineMethod) sit at the Greville points and reproduce every refinement
        if vb is None:
            pass
        elif meth == "Spline":
            tg, cg = ocp.sample(vb, grid="gist")
            tg = num(tg).reshape(-1); cg = np.atleast_2d(num(cg)); cg = cg.reshape(width, -1, order="F") if cg.shape[0] != width else cg
            tg2, cg2 = ocp.sample(vb + 0.75, grid="gist")
            tg2 = num(tg2).reshape(-1); cg2 = np.atleast_2d(num(cg2)); cg2 = cg2.reshape(width, -1, order="F") if cg2.shape[0] != width else cg2
            if not NL.close(tg2, tg, 1e-10) or cg2.shape != cg.shape or not NL.close(cg2, cg + 0.75, 1e-9):
                vios.append(dict(sig="value:gist:affine", tags=tags, detail="gist coefficients of (v + 0.75) are %s; those of the B-spline variable v are %s" % (np.round(cg2, 5).tolist(), np.round(cg, 5).tolist())))
            tcl = np.concatenate([[xi[0]] * (d + 1), xi[1:-1], [xi[-1]] * (d + 1)]) if d > 0 else None
            wantG = (xi[1:] + xi[:-1]) / 2 if d == 0 else np.array([np.mean(tcl[i + 1:i + d + 1]) for i in range(N + d)])
            if cg.shape[1] != N + d or not NL.close(tg, wantG, 1e-10):
                vios.append(dict(sig="value:gist:greville", tags=tags, detail="gist times %s vs Greville points %s (%d coefficients, expected %d)" % (np.round(tg, 5), np.round(wantG, 5), cg.shape[1], N + d)))
            else:
                spv = scipy_spline(xi, d, cg)
                for r in (1, 2, 3, 5):
                    ts, vs = ocp.sample(vb, grid="control", refine=r)
                    ts = num(ts).reshape(-1); vs = np.atleast_2d(num(vs)); vs = vs.reshape(width, -1, order="F") if vs.shape[0] != width else vs
                    want = spv(ts)
                    mask = np.array([d > 0 or np.min(np.abs(xi - tv)) > 1e-12 for tv in ts])
                    evals += len(ts)
                    if not NL.close(vs[:, mask], want[:, mask], 1e-8):
                        vios.append(dict(sig="value:gist:reproduce", tags=tags + ["grid=control:refine=%d" % r], detail="samples of the B-spline variable are not the Cox-de Boor evaluation of its gist coefficients"))
                        break
        else:
            # sampling methods: the samples ARE a spline on the control-grid knots with N+d degrees of freedom:
            # recover coefficients from one refinement, reproduce the others
            ts, vs = ocp.sample(vb, grid="integrator", refine=5)
            ts = num(ts).reshape(-1); vs = np.atleast_2d(num(vs)); vs = vs.reshape(width, -1, order="F") if vs.shape[0] != width else vs
            keep = np.array([d > 0 or np.min(np.abs(xi - tv)) > 1e-12 for tv in ts])
            Bm = scipy_basis(xi, d, ts[keep])
            c_rec, res, *_ = np.linalg.lstsq(Bm.T, vs[:, keep].T, rcond=None)
            fit = (Bm.T @ c_rec).T
            if not NL.close(fit, vs[:, keep], 1e-8):
                vios.append(dict(sig="value:signal:not-a-spline", tags=tags, detail="samples of the B-spline variable do not lie on a degree-%d spline on the control-grid knots (residual %g)" % (d, np.max(np.abs(fit - vs[:, keep])))))
            else:
                spv = scipy_spline(xi, d, c_rec.T)
                for r in (1, 2, 3):
                    ts2, vs2 = ocp.sample(vb, grid="integrator", refine=r)
                    ts2 = num(ts2).reshape(-1); vs2 = np.atleast_2d(num(vs2)); vs2 = vs2.reshape(width, -1, order="F") if vs2.shape[0] != width else vs2
                    mask = np.array([d > 0 or np.min(np.abs(xi - tv)) > 1e-12 for tv in ts2])
                    if not NL.close(vs2[:, mask], spv(ts2)[:, mask], 1e-7):
                        vios.append(dict(sig="value:signal:refine-inconsistent", tags=tags + ["grid=integrator:refine=%d" % r], detail="refinement %d is not the same spline as refinement 5" % r))
                        break
    except Exception as e:
        fr = core.rockit_frame(sys.exc_info()[2])
        if fr is None and not isinstance(e, (RuntimeError, AssertionError, AttributeError)):
            raise
        vios.append(dict(sig="exception:signal:%s" % (fr or type(e).__name__), tags=tags, detail="%s: %s" % (type(e).__name__, str(e)[:200])))
    seen = set(); uniq = []
    for v_ in vios:
        if v_["sig"] not in seen:
            seen.add(v_["sig"]); uniq.append(v_)
    return dict(violations=uniq, evaluations=max(evals, 1), traces=1, transitions=10, outcome=explore.sha(case), nontrivial=True, sample=case)


# ------------------------------------------------------------------------------------------

def declare_chains(ocp, chains, vec):
    """integrator chains: x_1' = x_2, ..., x_L' = u; returns list of (states list, control)"""
    out = []
    n = 2 if vec else 1
    for L in chains:
        xs = [ocp.state(n) for _ in range(L)]
        u = ocp.control(n)
        for i in range(L):
            ocp.set_der(xs[i], xs[i + 1] if i + 1 < L else u)
        out.append((xs, u))
    return out


def spline_program(meth, chains, N, g, vec, refine_con=1, inc=(True, True), with_offset=False, refined_first=False):
    import rockit
    ocp = rockit.Ocp(t0=0.3, T=1.9)
    ch = declare_chains(ocp, chains, vec)
    kw = {}
    if not inc[0]: kw["include_first"] = False
    if not inc[1]: kw["include_last"] = False
    for xs, u in ch:
        if not refined_first:
            ocp.subject_to(-1.5 <= (u <= 1.5))
        ocp.subject_to(xs[0] <= 3, refine=refine_con, **kw) if meth == "Spline" else ocp.subject_to(xs[0] <= 3, **kw)
        if refined_first:
            ocp.subject_to(-1.5 <= (u <= 1.5))       # the unrefined constraint is declared last
        ocp.subject_to(ocp.at_t0(xs[0]) == 0.1)
        if with_offset == "prev_t":
            # shifted the other way and with explicit time: imposed at nodes 1..N with the time of that node
            ocp.subject_to(xs[0] - ocp.prev(xs[0]) <= 0.7 + 0.1 * ocp.t)
        elif with_offset:
            # a second path constraint with a shifted operand (it has no instance at the final node)
            ocp.subject_to(ocp.next(xs[0]) - xs[0] <= 0.7)
    ocp.add_objective(sum(ocp.at_tf(ca_sumsqr(xs[0] - 1)) for xs, u in ch) + sum(ocp.sum(ca_sumsqr(u)) for xs, u in ch))
    ocp.solver("ipopt", {"ipopt.print_level": 0, "print_time": False, "ipopt.sb": "yes"})
    gr = rockit_grid(g)
    ocp.method(rockit.SplineMethod(N=N, grid=gr) if meth == "Spline" else rockit.MultipleShooting(N=N, M=1, grid=gr))
    return ocp, ch


def ca_sumsqr(e):
    import casadi as ca
    return ca.sumsqr(e)


def spline_path_rows(chains, N, g, vec, r, inc, with_offset=False, refined_first=False):
    """SplineMethod NLP of a chain program with x<=3 declared with refine=r and include_first/include_last = inc:
    returns (#kept instances missing from the NLP, #kept instances, #excluded end-point instances present in the NLP)"""
    import casadi as ca
    nn = 2 if vec else 1
    ocp2, ch2 = spline_program("Spline", chains, N, g, vec, refine_con=r, inc=inc, with_offset=with_offset, refined_first=refined_first)
    nlp2 = NL.Nlp(ocp2)
    pts = [NL.generic(nlp2.nx, q, 0, lo=-0.7, hi=1.2) for q in range(3)]
    f, rows = NL.canon_rows(nlp2, pts)
    refs = []; dropped = []
    for xs, u in ch2:
        _, xv = ocp2.sample(xs[0], grid="control", refine=r)
        Fx = ca.Function("f", [nlp2.x, nlp2.p], [xv])
        vals = [np.atleast_2d(np.array(Fx(p_, nlp2.p0))) for p_ in pts]
        vals = [v_.reshape(nn, -1, order="F") if v_.shape[0] != nn else v_ for v_ in vals]
        npt = vals[0].shape[1]
        for i in range(npt):
            keep = not ((i == 0 and not inc[0]) or (i == npt - 1 and not inc[1]))
            for e in range(nn):
                (refs if keep else dropped).append(dict(kind="ineq", fp=np.array([3 - v_[e, i] for v_ in vals]), origin="path:%d" % i))
    if with_offset:
        for xs, u in ch2:
            _, xv = ocp2.sample(xs[0], grid="control")
            Fx = ca.Function("f", [nlp2.x, nlp2.p], [xv])
            vals = [np.atleast_2d(np.array(Fx(p_, nlp2.p0))) for p_ in pts]
            vals = [v_.reshape(nn, -1, order="F") if v_.shape[0] != nn else v_ for v_ in vals]
            tnodes = 0.3 + 1.9 * norm_grid(g, N)
            for i in range(vals[0].shape[1] - 1):
                for e in range(nn):
                    if with_offset == "prev_t":
                        refs.append(dict(kind="ineq", fp=np.array([0.7 + 0.1 * tnodes[i + 1] - (v_[e, i + 1] - v_[e, i]) for v_ in vals]), origin="path:prev:%d" % (i + 1)))
                    else:
                        refs.append(dict(kind="ineq", fp=np.array([0.7 - (v_[e, i + 1] - v_[e, i]) for v_ in vals]), origin="path:next:%d" % i))
    missing, extra = NL.match_rows(rows, refs)
    n_extra = 0
    if dropped:
        miss_d, _ = NL.match_rows(extra, dropped)
        n_extra = len(dropped) - len(miss_d)
    return len(missing), len(refs), n_extra


def run_spline(case):
    import casadi as ca, sys
    chains, N, g, vec = case["chains"], case["N"], case["grid"], case["vec"]
    tags = ["chains=%s" % chains, "N=%d" % N, "grid=%s" % g, "vec=%s" % vec]
    vios = []
    evals = 0
    try:
        ocp, ch = spline_program("Spline", chains, N, g, vec)
        nlp = NL.Nlp(ocp)
        w = NL.generic(nlp.nx, 0, 0, lo=-0.7, hi=1.2)
        num = lambda e: np.array(ca.Function("f", [nlp.x, nlp.p], [ca.MX(e)])(w, nlp.p0))
        tc = num(ocp.sample(ch[0][0][0], grid="control")[0]).reshape(-1)
        want_tc = 0.3 + 1.9 * norm_grid(g, N)
        if not NL.close(tc, want_tc, 1e-10):
            vios.append(dict(sig="value:spline:grid", tags=tags, detail="control grid %s vs declared %s" % (tc, want_tc)))
        R = 4
        nn = 2 if vec else 1
        for xs, u in ch:
            L = len(xs)
            tt, uu = ocp.sample(u, grid="control", refine=R)
            tt = num(tt).reshape(-1); uu = np.atleast_2d(num(uu)); uu = uu.reshape(nn, -1, order="F") if uu.shape[0] != nn else uu
            want_t = np.array([tc[k] + q * (tc[k + 1] - tc[k]) / R for k in range(N) for q in range(R)] + [tc[N]])
            if not NL.close(tt, want_t, 1e-10):
                vios.append(dict(sig="value:spline:refined-times", tags=tags, detail="refined time stamps %s vs equal subdivisions of the control intervals %s" % (np.round(tt, 4), np.round(want_t, 4))))
                break
            S = []
            for x in xs:
                _, xv = ocp.sample(x, grid="control", refine=R)
                xv = np.atleast_2d(num(xv)); xv = xv.reshape(nn, -1, order="F") if xv.shape[0] != nn else xv
                S.append(xv)
            S.append(uu)
            # the chain dynamics hold identically in time: on every control interval member j is the Taylor polynomial
            # of the members above it (the control is piecewise constant)
            bad = False
            for j in range(L):
                for i, ti in enumerate(tt):
                    k = min(i // R, N - 1)
                    i0 = k * R
                    h = ti - tt[i0]
                    val = sum(S[j + m][:, i0] * h ** m / math.factorial(m) for m in range(L - j + 1))
                    evals += 1
                    if not NL.close(val, S[j][:, i], 1e-8):
                        vios.append(dict(sig="value:spline:dynamics", tags=tags, detail="state %d of a chain of length %d at t=%g is %s; integrating the chain exactly gives %s" % (j, L, ti, np.round(S[j][:, i], 6), np.round(val, 6))))
                        bad = True; break
                if bad: break
            if bad: break
        # grid='gist': the coefficients of each state / control (and of an affine expression of it) sit at the Greville
        # points of its own degree and reproduce the refined samples through an independent Cox-de Boor evaluation
        for xs, u in (ch if not vios else []):
            L = len(xs)
            for j, sym in enumerate(list(xs) + [u]):
                d = L - j
                tg, cg = ocp.sample(sym, grid="gist")
                tg = num(tg).reshape(-1); cg = np.atleast_2d(num(cg)); cg = cg.reshape(nn, -1, order="F") if cg.shape[0] != nn else cg
                tcl = clamped(tc, d)
                wantG = (tc[1:] + tc[:-1]) / 2 if d == 0 else np.array([np.mean(tcl[i + 1:i + d + 1]) for i in range(N + d)])
                evals += len(tg)
                if cg.shape[1] != N + d or not NL.close(tg, wantG, 1e-10):
                    vios.append(dict(sig="value:gist:greville", tags=tags + ["degree=%d" % d], detail="gist times %s vs Greville points %s (%d coefficients, expected %d)" % (np.round(tg, 5), np.round(wantG, 5), cg.shape[1], N + d)))
                    break
                tg2, cg2 = ocp.sample(sym + 0.75, grid="gist")
                tg2 = num(tg2).reshape(-1); cg2 = np.atleast_2d(num(cg2)); cg2 = cg2.reshape(nn, -1, order="F") if cg2.shape[0] != nn else cg2
                if not NL.close(tg2, tg, 1e-10) or cg2.shape != cg.shape or not NL.close(cg2, cg + 0.75, 1e-9):
                    vios.append(dict(sig="value:gist:affine", tags=tags + ["degree=%d" % d], detail="gist coefficients of (x + 0.75) are %s; those of x are %s" % (np.round(cg2, 5).tolist(), np.round(cg, 5).tolist())))
                    break
                spv = scipy_spline(tc, d, cg)
                ts, vs = ocp.sample(sym, grid="control", refine=3)
                ts = num(ts).reshape(-1); vs = np.atleast_2d(num(vs)); vs = vs.reshape(nn, -1, order="F") if vs.shape[0] != nn else vs
                mask = np.array([d > 0 or np.min(np.abs(tc - tv)) > 1e-12 for tv in ts])
                if not NL.close(vs[:, mask], spv(ts)[:, mask], 1e-8):
                    vios.append(dict(sig="value:gist:reproduce", tags=tags + ["degree=%d" % d], detail="refined samples of a chain member are not the Cox-de Boor evaluation of its gist coefficients"))
                    break
        # path constraints at every (refined) grid point
        for r in (1, 2, 3):
            n_missing, n_refs, n_extra = spline_path_rows(chains, N, g, vec, r, (True, True))
            evals += n_refs
            if n_missing:
                vios.append(dict(sig="missing:spline:path", tags=tags + ["refine=%d" % r], detail="%d of %d instances of x<=3 on the refined grid (refine=%d) are not in the NLP" % (n_missing, n_refs, r)))
                break
        # the refinement of a path constraint changes nothing but that constraint: same objective function
        for r in (2, 3):
            ocp_r, _ = spline_program("Spline", chains, N, g, vec, refine_con=r)
            nlp_r = NL.Nlp(ocp_r)
            if nlp_r.nx == nlp.nx:
                f_r, f_1 = float(nlp_r.eval(w)[0]), float(nlp.eval(w)[0])
                if not NL.close(f_r, f_1, 1e-9):
                    vios.append(dict(sig="value:spline:objective:refine", tags=tags + ["refine=%d" % r], detail="with the path constraint refined (refine=%d) the objective at the same decision vector is %g, unrefined %g" % (r, f_r, f_1)))
                    break
        # agreement with MultipleShooting on what both can represent: the spline trajectory closes MS's gaps (RK4 is
        # exact for chains up to length 4) and both objectives agree there
        ocpm, chm = spline_program("MS", chains, N, g, vec)
        nlpm = NL.Nlp(ocpm)
        rb = {}
        for ci, (xs, u) in enumerate(chm):
            for j, x in enumerate(xs):
                rb["x%d_%d" % (ci, j)] = ocpm.sample(x, grid="control")[1]
            rb["u%d" % ci] = ocpm.sample(u, grid="control-")[1]
        nlpm.set_readbacks(rb)
        q = {}
        for ci, (xs, u) in enumerate(ch):
            for j, x in enumerate(xs):
                q["x%d_%d" % (ci, j)] = num(ocp.sample(x, grid="control")[1])
            uu = num(ocp.sample(u, grid="control")[1])
            uu = np.atleast_2d(uu); uu = uu.reshape(nn, -1, order="F") if uu.shape[0] != nn else uu
            q["u%d" % ci] = uu[:, :N]
        wm, err = core.label_solve(nlpm, q, keys=list(q.keys()))
        if err > 1e-9:
            vios.append(dict(sig="value:spline:ms-labelling", tags=tags, detail="MultipleShooting cannot represent the sampled spline trajectory (err %g)" % err))
        else:
            fm, gm, lbm, ubm = nlpm.eval(wm)
            eq = [i for i in range(nlpm.ng) if np.isfinite(lbm[i]) and abs(lbm[i] - ubm[i]) < 1e-13]
            fs = float(num(nlp.opti.f).reshape(-1)[0])
            # gap rows are the equality rows except the initial conditions; all equality rows that depend on more than the first node
            gaps = []
            for i in eq:
                gaps.append(gm[i] - lbm[i])
            # initial-condition rows are x(t0)-0.1: at a generic point they are non-zero on both sides; compare as multisets
            fS, rS = NL.canon_rows(nlp, [w])
            eqS = sorted(abs(r_["fp"][0]) for r_ in rS if r_["kind"] == "eq")
            eqM = sorted(abs(v_) for v_ in gaps)
            nz = [v_ for v_ in eqM if v_ > 1e-8]
            if not NL.close(np.array(sorted(nz)), np.array(sorted(v_ for v_ in eqS if v_ > 1e-8)), 1e-7) if len(nz) == len([v_ for v_ in eqS if v_ > 1e-8]) else True:
                vios.append(dict(sig="value:spline:ms-gaps", tags=tags, detail="at the sampled spline trajectory MultipleShooting's dynamic rows do not vanish: non-zero equality residuals %s (SplineMethod's own: %s)" % (np.round(nz, 6)[:6], np.round([v_ for v_ in eqS if v_ > 1e-8], 6)[:6])))
            if not NL.close(fm, fs, 1e-8):
                vios.append(dict(sig="value:spline:ms-objective", tags=tags, detail="objective %g under SplineMethod vs %g under MultipleShooting at the same trajectory" % (fs, fm)))
    except Exception as e:
        fr = core.rockit_frame(sys.exc_info()[2])
        if fr is None and not isinstance(e, (RuntimeError, AssertionError, AttributeError)):
            raise
        vios.append(dict(sig="exception:spline:%s" % (fr or type(e).__name__), tags=tags, detail="%s: %s" % (type(e).__name__, str(e)[:200])))
    return dict(violations=vios, evaluations=max(evals, 1), traces=5, transitions=5, outcome=explore.sha(case), nontrivial=True, sample=case)


def spline_inf_program(chains, N, g, con, with_inf=True):
    import rockit
    ocp = rockit.Ocp(t0=0.3, T=1.9)
    ch = declare_chains(ocp, chains, False)
    xs, u = ch[0]
    for xs_, u_ in ch:
        ocp.subject_to(ocp.at_t0(xs_[0]) == 0.1)
    ocp.add_objective(sum(ocp.at_tf(ca_sumsqr(xs_[0] - 1)) for xs_, u_ in ch) + sum(ocp.sum(ca_sumsqr(u_)) for xs_, u_ in ch))
    target = {"state": xs[0], "last": xs[-1], "control": u}[con[0]]
    e = target + con[1]
    if with_inf:
        if con[2] is None:
            ocp.subject_to(e <= con[3], grid="inf")
        else:
            ocp.subject_to(con[2] <= (e <= con[3]), grid="inf")
    ocp.solver("ipopt", {"ipopt.print_level": 0, "print_time": False, "ipopt.sb": "yes"})
    ocp.method(rockit.SplineMethod(N=N, grid=rockit_grid(g)))
    return ocp, e


def run_spline_inf(case):
    """grid='inf' constraints under SplineMethod: whenever the NLP rows of the constraint hold, the constrained
    expression satisfies its bounds on a dense refinement (first crossing of the row boundary along every alphabet ray)"""
    import casadi as ca, sys
    from .c15 import cert_rows
    chains, N, g, con = case["chains"], case["N"], case["grid"], case["con"]
    tags = ["spline_inf", "chains=%s" % chains, "N=%d" % N, "grid=%s" % g, "con=%s" % (con,)]
    vios = []
    try:
        ocpA, e = spline_inf_program(chains, N, g, con, True)
        ocpB, _ = spline_inf_program(chains, N, g, con, False)
        nlpA = NL.Nlp(ocpA); nlpB = NL.Nlp(ocpB)
        n = nlpA.nx
        pts = NL.alphabet(n, seed=0, full=False) + [NL.generic(n, 2, 0, lo=-0.5, hi=0.9)]
        cert, missing = cert_rows(nlpA, nlpB, pts)
        if not cert:
            return dict(violations=[dict(sig="silent:no-certificate", tags=tags, detail="grid='inf' constraint adds no rows")], evaluations=1, traces=2, transitions=1, outcome="nocert", nontrivial=True, sample=case)
        idx = [(r["idx"], r["side"]) for r in cert]
        _, ev_ = ocpA.sample(e, grid="control", refine=12)
        Fe = ca.Function("e", [nlpA.x, nlpA.p], [ev_])

        def cert_slack(w):
            f, gg, lb, ub = nlpA.eval(w)
            return min((gg[i] - lb[i]) if side == "lb" else ((ub[i] - gg[i]) if side == "ub" else -abs(gg[i] - lb[i])) for i, side in idx)

        def true_slack(w):
            v = np.array(Fe(w, nlpA.p0)).reshape(-1)
            sl = con[3] - np.max(v)
            if con[2] is not None:
                sl = min(sl, np.min(v) - con[2])
            return sl
        base = np.zeros(n)
        if cert_slack(base) < 0:
            return dict(violations=[], evaluations=1, traces=2, transitions=1, outcome="nostart", nontrivial=False, counts=dict(inconclusive=1), sample=case)
        dirs = [NL.generic(n, q, 0, lo=-1, hi=1) for q in range(3)]
        for i in range(n):
            for sg in (1.0, -1.0):
                d_ = np.zeros(n); d_[i] = sg; dirs.append(d_)
        nchk = 0
        for dvec in dirs:
            lo, hi = 0.0, None; a = 0.05
            for _ in range(9):
                if cert_slack(base + a * dvec) < 0: hi = a; break
                lo = a; a *= 2
            if hi is not None:
                for _ in range(50):
                    mid = 0.5 * (lo + hi)
                    if cert_slack(base + mid * dvec) >= 0: lo = mid
                    else: hi = mid
            for al in (lo, 0.9 * lo, 0.5 * lo):
                w = base + al * dvec
                if cert_slack(w) < 0: continue
                sl = true_slack(w); nchk += 1
                if sl < -1e-8:
                    vios.append(dict(sig="unsound:spline-inf", tags=tags, detail="all rows of the grid='inf' constraint hold (min slack %g) but the expression violates its bound by %g on the refined grid" % (cert_slack(w), -sl)))
                    break
            if vios: break
    except Exception as ex:
        fr = core.rockit_frame(sys.exc_info()[2])
        if fr is None and not isinstance(ex, (RuntimeError, AssertionError, AttributeError)):
            raise
        return dict(violations=[dict(sig="exception:spline-inf:%s" % (fr or type(ex).__name__), tags=tags, detail="%s: %s" % (type(ex).__name__, str(ex)[:200]))], evaluations=1, traces=2, transitions=1, outcome="exc", nontrivial=True, sample=case)
    return dict(violations=vios, evaluations=max(nchk, 1), traces=2, transitions=len(dirs), outcome=explore.sha([case, nchk]), nontrivial=nchk > 0, counts=dict(boundary_points=nchk), sample=case)


def run_spline_affine(case):
    """A linear model that is not a pure integrator chain under SplineMethod: rejected by transcription time, or the
    sampled trajectories satisfy the DECLARED differential equations identically in time (every state is a polynomial per
    control interval; its exact derivative on refine=6 samples equals the declared right-hand side at the sampled values)."""
    import casadi as ca, sys, rockit
    model, N, g = case["model"], case["N"], case["grid"]
    tags = ["spline_affine", "model=%s" % model, "N=%d" % N, "grid=%s" % g]
    vios = []; evals = 0; outcome = "rejected"
    try:
        ocp = rockit.Ocp(t0=0.3, T=1.9)
        if model == "u+p":
            p = ocp.parameter()
            ocp.set_value(p, 0.6)
        u = ocp.control()
        if model == "x2+1":
            x1 = ocp.state(); x2 = ocp.state()
            xs = [x1, x2]
            ocp.set_der(x1, x2 + 1); ocp.set_der(x2, u)
            rhs = lambda X, U: [X[1] + 1, U]
        else:
            x = ocp.state(); xs = [x]
            f = {"u+1": lambda X, U: [U + 1], "u+p": lambda X, U: [U + 0.6], "2u": lambda X, U: [2 * U], "u-x": lambda X, U: [U - X[0]], "u+0": lambda X, U: [U]}[model]
            ocp.set_der(x, u + 1 if model == "u+1" else u + p if model == "u+p" else 2 * u if model == "2u" else u - x if model == "u-x" else u + 0)
            rhs = f
        ocp.subject_to(ocp.at_t0(xs[0]) == 0.1)
        ocp.add_objective(ocp.at_tf((xs[0] - 1) ** 2) + ocp.sum(u ** 2))
        ocp.solver("ipopt", {"ipopt.print_level": 0, "print_time": False, "ipopt.sb": "yes"})
        ocp.method(rockit.SplineMethod(N=N, grid=rockit_grid(g)))
        try:
            nlp = NL.Nlp(ocp)
        except Exception as e:
            fr = core.rockit_frame(sys.exc_info()[2])
            if fr is None and not isinstance(e, (RuntimeError, AssertionError, AttributeError)):
                raise
            return dict(violations=[], evaluations=1, traces=1, transitions=1, outcome="rejected:%s" % model, nontrivial=True, sample=case)
        outcome = "transcribed"
        w = NL.generic(nlp.nx, 0, 0, lo=-0.7, hi=1.2)

        def num(e):
            F = ca.Function("f", [nlp.x, nlp.p], [ca.MX(e)], {"allow_free": True})
            if not F.has_free():
                return np.array(F(w, nlp.p0))
            free = F.free_mx()           # symbols that occur in no row and no objective term
            F = ca.Function("f", [nlp.x, nlp.p] + free, [ca.MX(e)])
            return np.array(F(w, nlp.p0, *[nlp.opti.debug.value(s_, nlp.opti.initial()) for s_ in free]))
        R = 6
        tt = num(ocp.sample(xs[0], grid="control", refine=R)[0]).reshape(-1)
        X = [num(ocp.sample(x_, grid="control", refine=R)[1]).reshape(-1) for x_ in xs]
        U = num(ocp.sample(u, grid="control", refine=R)[1]).reshape(-1)
        for k in range(N):
            idx = list(range(k * R, k * R + R))         # the interval's own points (its right end belongs to the next one)
            tl = tt[idx] - tt[idx[0]]
            for j, xv in enumerate(X):
                c = np.polyfit(tl, xv[idx], R - 1)
                dx = np.polyval(np.polyder(c), tl)
                want = np.array([rhs([Xv[i] for Xv in X], U[i])[j] for i in idx], dtype=float)
                evals += 1
                if not NL.close(dx, want, 1e-6):
                    vios.append(dict(sig="value:spline:declared-dynamics", tags=tags, detail="model x' = %s transcribed by SplineMethod, but on control interval %d the derivative of state %d is %s while the declared right-hand side at the sampled values is %s" % (model, k, j, np.round(dx[:3], 6), np.round(want[:3], 6))))
                    break
            if vios: break
    except Exception as e:
        fr = core.rockit_frame(sys.exc_info()[2])
        if fr is None and not isinstance(e, (RuntimeError, AssertionError, AttributeError)):
            raise
        vios.append(dict(sig="exception:spline_affine:%s" % (fr or type(e).__name__), tags=tags, detail="%s: %s" % (type(e).__name__, str(e)[:200])))
    return dict(violations=vios, evaluations=max(evals, 1), traces=1, transitions=1, outcome="%s:%s" % (outcome, model), nontrivial=True, sample=case)


def run_case(case):
    return {"micro": run_micro, "signal": run_signal, "spline": run_spline, "spline_inf": run_spline_inf, "spline_affine": run_spline_affine}[case["kind"]](case)


def describe(tier):
    return dict(
        rule="(a) full product order 0..4 x N x {uniform, geometric, user function} grids: eval_on_knots at the knots, on refinements 1..5 with/without edges and on arbitrary sub-grids, Greville points, bspline_derivative vs an independent Cox-de Boor (scipy BSpline on the clamped knot vector) - basis matrices compared entry-wise, so every coefficient vector is decided; (b) order x N x grid x {SplineMethod, MS, DC} x width: a B-spline parameter with known coefficients (given before the first transcription, or changed after it) and its der / der(der) sampled on every grid option vs scipy on the physical knots; B-spline variable: gist coefficients at Greville points reproduce all refinements (SplineMethod) / samples lie on one degree-d spline with N+d degrees of freedom across refinements (sampling methods); (c) SplineMethod on every integrator-chain system from a 10-element alphabet (lengths 1..4, mixed, vector states) x N x grid: chain dynamics as exact Taylor identities on refine=4 samples, refined time stamps, path-constraint rows at every refined point (refine 1..3), and MS's dynamic rows vanish / objectives agree at the sampled spline trajectory; (d) grid='inf' constraints (state / last chain member / control, with constant offsets, one- and two-sided) under SplineMethod: at the first crossing of the constraint rows' boundary along every alphabet ray the expression satisfies its bounds on a refine=12 sample; (e) linear models that are not pure integrator chains (constant / parametric affine offset in the lowest or an upper member, a gain, a feedback term) under SplineMethod: rejected by transcription time, or the exact derivative of every sampled state polynomial equals the declared right-hand side on every control interval",
        bound="order<=4, N<=%d" % (8,),
        assumptions=["scipy.interpolate.BSpline is the independent Cox-de Boor oracle", "SplineMethod cases need the networkx wheel"])

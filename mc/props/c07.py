"""C07  Sampling commutes with expression evaluation on every grid."""
import itertools
import numpy as np
from .. import program as P, explore, core, nlp as NL, reftrans as RT
from ..backends import NP, CA
from . import _trans

ID = "C07"
CHUNK = 1

ATOMS_SIG = ["x", "x0", "x1", "u", "t", "pc", "vc", "z"]     # signals
ATOMS_GLOB = ["pg", "vg", "T", "t0"]                          # non-signals
GRIDS = [("control", None), ("control-", None), ("integrator", None), ("integrator", 1), ("integrator", 2), ("integrator", 3), ("integrator_roots", None)]


def atom(m, s, name):
    if name == "x": return s["x"]
    if name == "x0": return m.el(s["x"], 0)
    if name == "x1": return m.el(s["x"], 1)
    if name == "u": return m.el(s["u"], 0)
    return s[name]


def ev(m, s, a):
    """evaluate an expression AST on a backend; numpy values: floats or 2-D arrays"""
    k = a[0]
    if k == "atom": return atom(m, s, a[1])
    if k == "sin": return m.sin(ev(m, s, a[1]))
    if k == "sq":
        v = ev(m, s, a[1]); return v * v
    if k == "neg": return -ev(m, s, a[1])
    if k == "aff": return 2.0 * ev(m, s, a[1]) + 1.0
    if k == "mul": return ev(m, s, a[1]) * ev(m, s, a[2])
    if k == "add": return ev(m, s, a[1]) + ev(m, s, a[2])
    if k == "sub": return ev(m, s, a[1]) - ev(m, s, a[2])
    parts = [ev(m, s, e) for e in a[1]] if k in ("vcat", "hcat") else None
    if k == "vcat":
        if m is NP: return np.vstack([np.atleast_2d(np.asarray(p, dtype=float)).reshape(-1, 1) if np.ndim(p) == 0 else np.asarray(p, dtype=float) for p in parts])
        import casadi as ca
        return ca.vertcat(*parts)
    if k == "hcat":
        if m is NP: return np.hstack([np.atleast_2d(np.asarray(p, dtype=float)) for p in parts])
        import casadi as ca
        return ca.horzcat(*parts)
    if k == "mat":
        rows = [[ev(m, s, e) for e in r] for r in a[1]]
        if m is NP: return np.array([[float(e) for e in r] for r in rows])
        import casadi as ca
        return ca.vertcat(*[ca.horzcat(*r) for r in rows])
    raise KeyError(k)


def atoms_of(a):
    if a[0] == "atom": return {a[1]}
    out = set()
    for e in a[1:]:
        if isinstance(e, list) and e and isinstance(e[0], str): out |= atoms_of(e)
        elif isinstance(e, list):
            for f in e:
                if isinstance(f, list) and f and isinstance(f[0], str): out |= atoms_of(f)
                elif isinstance(f, list):
                    for g in f: out |= atoms_of(g)
    return out


def expressions(depth, with_z):
    A = lambda n: ["atom", n]
    scal_sig = [n for n in ATOMS_SIG if n != "x" and (with_z or n != "z")]
    scal = scal_sig + ATOMS_GLOB
    out = [A(n) for n in ["x"] + scal]
    un = ["sin", "sq", "neg", "aff"]
    for n in scal:
        for o in un:
            out.append([o, A(n)])
    out += [["sin", A("x")], ["sq", A("x")], ["aff", A("x")]]
    for a, b in itertools.combinations(scal, 2):
        out.append(["mul", A(a), A(b)])
        out.append(["add", A(a), ["sin", A(b)]])
    for n in scal:
        out.append(["mul", A("x"), A(n)])       # vector times scalar
    # shapes: column, row, matrix, slices of matrices
    out.append(["vcat", [A("x0"), A("u"), A("t")]])
    out.append(["hcat", [A("x0"), A("u"), A("t")]])
    out.append(["hcat", [A("x1"), ["mul", A("pc"), A("t")]]])
    out.append(["mat", [[A("x0"), A("u")], [A("t"), A("vc")]]])
    out.append(["mat", [[A("x0"), ["mul", A("x1"), A("pg")]], [["sin", A("t")], A("T")]]])
    out.append(["vcat", [A("x"), A("u")]])
    out.append(["hcat", [A("pg"), A("vg"), A("T")]])       # non-signal row
    out.append(["vcat", [A("pg"), ["mul", A("vg"), A("t0")]]])
    if depth >= 3:
        for a, b, c in itertools.combinations(scal_sig + ["pg", "T"], 3):
            out.append(["add", ["mul", A(a), A(b)], ["sq", A(c)]])
            out.append(["mul", ["sin", ["add", A(a), A(b)]], A(c)])
        for a, b in itertools.combinations(scal, 2):
            out.append(["sin", ["sub", ["sq", A(a)], ["aff", A(b)]]])
    return out


CONFIGS = [
    # a single control interval: grid='control-' has exactly one time point (the leading index must survive)
    dict(method="MS", N=1, M=1), dict(method="DC", N=1, M=2, degree=2, alg=True),
    dict(method="MS", N=2, M=1), dict(method="MS", N=3, M=2, grid="geom"), dict(method="MS", N=2, M=2, intg="expl_euler"),
    dict(method="SS", N=2, M=2), dict(method="SS", N=3, M=1, grid="geom", horizon="Tfree"),
    dict(method="DC", N=2, M=1, degree=2), dict(method="DC", N=2, M=2, degree=3, scheme="legendre", grid="geom"), dict(method="DC", N=3, M=2, degree=2, alg=True),
    dict(method="DC", N=2, M=3, degree=1, alg=True, horizon="bothfree"),
    dict(method="MS", N=2, M=2, horizon="bothfree", grid="uniform_lt0"), dict(method="MS", N=2, M=1, pc="control", vc="control+"),
    dict(method="DC", N=2, M=2, degree=2, pc="control", vc="control+", alg=True),
]


def config(c):
    kw = dict(state="vec2", pg="scalar", pc="control+", vg=True, vc="control")
    kw.update(c)
    d = P.case(**kw)
    d["cons"] = [P.con("bc0"), P.con("u_between"), P.con("pc_le"), P.con("vc_ge")]
    d["obj"] = ["mayer_tf", "integral", "vg", "integral_vc", "pg"] + (["int_z"] if d["alg"] else []) + (["T"] if d["horizon"] != "fixed" else [])
    return d


def cases(tier):
    depth = 3 if tier == "thorough" else 2
    out = []
    cfgs = CONFIGS if tier == "thorough" else CONFIGS[:11]
    for ci, c in enumerate(cfgs):
        d = config(c)
        ex = expressions(depth, d["alg"])
        n = 40
        for i in range(0, len(ex), n):
            out.append(dict(d=d, exprs=ex[i:i + n], cfg=ci, chunk=i // n))
    return out


class FakeSol:
    """solver-free solution object: evaluates expressions at a chosen decision vector (drives the real numeric read-back code)"""

    def __init__(self, nlp, w):
        self.nlp = nlp; self.w = w

    def value(self, expr, *a, **k):
        import casadi as ca
        F = ca.Function("v", [self.nlp.x, self.nlp.p], [ca.MX(expr)], {"allow_free": True})
        if F.has_free():
            # inactive symbols: evaluate at their starting values
            free = F.free_mx()
            F = ca.Function("v", [self.nlp.x, self.nlp.p] + free, [ca.MX(expr)])
            vals = [self.nlp.opti.debug.value(e, self.nlp.opti.initial()) for e in free]
            r = F(self.w, self.nlp.p0, *vals)
        else:
            r = F(self.w, self.nlp.p0)
        r = np.array(r)
        if r.shape == (1, 1): return float(r[0, 0])
        if r.shape[1] == 1: return r[:, 0]
        return r

    def stats(self):
        return {}


def shape_rule(vals, shape, npts):
    """expected numpy layout: one leading index per time point, then the expression's shape with singleton dims removed"""
    r, c = shape
    arr = np.asarray(vals, dtype=float).reshape(r, c * npts, order="F")     # horizontally stacked blocks
    blocks = np.stack([arr[:, i * c:(i + 1) * c] for i in range(npts)], axis=0)   # npts x r x c
    newshape = (npts,) + tuple(s for s in (r, c) if s != 1)
    return blocks.reshape(newshape)


def run_case(case):
    import casadi as ca, sys
    from rockit.solution import OcpSolution
    from rockit.direct_method import OptiSolWrapper
    d = case["d"]
    tags = _trans.tags_of(d)
    vios = []
    r = P.declare(d)
    st, s = r.st, r.sym
    # an integral that is valued later has to exist before the transcription (it needs a quadrature state)
    _x = ca.vec(s["x"])
    pre_int = st.integral(_x[0] * ca.vec(s["u"])[0] + st.t)
    nlp = NL.Nlp(r.ocp)
    sd = core.get_seed() if hasattr(core, "get_seed") else 0
    w = NL.generic(nlp.nx, 0, 0)
    fake = FakeSol(nlp, w)
    sol = OcpSolution(OptiSolWrapper(nlp.opti, fake), r.ocp)
    evals = 0
    hashes = []

    def sym_env():
        e = dict(s)
        return e
    prim_cache = {}

    def sample_prim(name, grid, refine):
        key = (name, grid, refine)
        if key not in prim_cache:
            sy = atom(CA, s, name)
            kw = {} if refine is None else {"refine": refine}
            t, v = st.sample(sy, grid=grid, **kw)
            # (the solution object hands a one-column matrix back as a 1-D array, like OptiSol.value: restore the sample's own shape)
            prim_cache[key] = (np.atleast_1d(np.array(fake.value(t), dtype=float)).reshape(-1), np.array(fake.value(v), dtype=float).reshape(ca.MX(v).shape, order="F"))
        return prim_cache[key]
    for ast in case["exprs"]:
        ats = atoms_of(ast)
        e_sym = ev(CA, s, ast)
        e_sym = ca.MX(e_sym)
        is_signal = bool(ats & set(ATOMS_SIG))
        if not is_signal:
            # value(e) of a non-signal expression
            try:
                got = np.atleast_2d(np.array(fake.value(st.value(e_sym)), dtype=float))
                env = {n: float(np.array(fake.value(st.value(atom(CA, s, n)))).reshape(-1)[0]) for n in ats}
                want = np.atleast_2d(np.asarray(ev(NP, env, ast), dtype=float))
                evals += 1
                if got.size != want.size or not NL.close(got.reshape(want.shape, order="F") if got.shape != want.shape else got, want, 1e-10):
                    vios.append(dict(sig="value:value", tags=tags, detail="value(%s) = %s, expression of the values = %s" % (ast, got.tolist(), want.tolist())))
                got2 = np.atleast_2d(np.array(sol.value(e_sym), dtype=float))
                if got2.size != got.size or not NL.close(got2.reshape(got.shape, order="F") if got2.shape != got.shape else got2, got, 1e-12):
                    vios.append(dict(sig="value:sol.value", tags=tags, detail="sol.value(%s)" % (ast,)))
            except Exception as e:
                fr = core.rockit_frame(sys.exc_info()[2])
                vios.append(dict(sig="exception:value:%s" % (fr or type(e).__name__), tags=tags, detail="%s: %s (%s)" % (type(e).__name__, str(e)[:150], ast)))
            continue
        for grid, refine in GRIDS:
            if grid == "integrator_roots" and d["method"] != "DC":
                continue
            if "z" in ats and grid != "integrator_roots" and d["method"] != "DC":
                continue
            if refine is not None and d["intg"] == "expl_euler" and False:
                continue
            kw = {} if refine is None else {"refine": refine}
            gtag = "%s%s" % (grid, "" if refine is None else ":refine=%d" % refine)
            try:
                t_sym, v_sym = st.sample(e_sym, grid=grid, **kw)
                tv = np.atleast_1d(np.array(fake.value(t_sym), dtype=float)).reshape(-1)
                vv = np.atleast_2d(np.array(fake.value(v_sym), dtype=float))
                rr, cc = e_sym.shape
                npts = vv.size // (rr * cc)
                vv = vv.reshape(rr, cc * npts, order="F") if vv.shape != (rr, cc * npts) else vv
                # commutation: e at the sampled ingredients and the sampled time
                prim = {n: sample_prim(n, grid, refine) for n in ats}
                want = []
                for i in range(npts):
                    env = {}
                    for n in ats:
                        pv = prim[n][1]
                        if n == "x":
                            env["x"] = pv[:, i].reshape(2, 1)
                        elif n in ("x0", "x1"):
                            env.setdefault("x", np.zeros((2, 1)))
                        elif n == "u":
                            env["u"] = np.array([[pv.reshape(-1)[i]]])
                        else:
                            env[n] = float(pv.reshape(-1)[i])
                    # atoms x0/x1 need the whole x: sample it
                    if ("x0" in ats or "x1" in ats):
                        px = sample_prim("x", grid, refine)[1]
                        env["x"] = px[:, i].reshape(2, 1)
                    val = ev(NP, env, ast)
                    want.append(np.atleast_2d(np.asarray(val, dtype=float)).reshape(rr, cc))
                want = np.hstack(want)
                evals += npts
                if want.shape != vv.shape or not NL.close(vv, want, 1e-9):
                    vios.append(dict(sig="value:commute:%s" % grid, tags=tags + ["grid=%s" % gtag], detail="sample(%s, %s): %s vs expression of sampled ingredients %s" % (ast, gtag, np.round(vv, 6).tolist()[:2], np.round(want, 6).tolist()[:2])))
                # numeric read-back: same map, shape rule, one time stamp per entry
                try:
                    ts, xs = sol.sample(e_sym, grid=grid, **kw)
                    ts = np.atleast_1d(np.asarray(ts, dtype=float)).reshape(-1)    # (non-uniform grids return a 1 x n array)
                    exp = shape_rule(vv, (rr, cc), npts)
                    if ts.shape[0] != np.atleast_1d(xs).shape[0]:
                        vios.append(dict(sig="value:shape:time", tags=tags + ["grid=%s" % gtag], detail="sol.sample(%s,%s): %d time stamps for %d entries" % (ast, gtag, ts.shape[0], np.atleast_1d(xs).shape[0])))
                    elif np.asarray(xs).shape != exp.shape or not NL.close(np.asarray(xs, dtype=float), exp, 1e-10):
                        vios.append(dict(sig="value:shape", tags=tags + ["grid=%s" % gtag], detail="sol.sample(%s,%s) has shape %s, rule gives %s" % (ast, gtag, np.asarray(xs).shape, exp.shape)))
                    elif not NL.close(ts, tv[:ts.shape[0]], 1e-12):
                        vios.append(dict(sig="value:solsample:time", tags=tags + ["grid=%s" % gtag], detail="time vectors differ"))
                    hashes.append(np.round(exp, 6).tobytes())
                except Exception as e:
                    fr = core.rockit_frame(sys.exc_info()[2])
                    vios.append(dict(sig="exception:sol.sample:%s" % (fr or type(e).__name__), tags=tags + ["grid=%s" % gtag], detail="%s: %s (%s on %s)" % (type(e).__name__, str(e)[:150], ast, gtag)))
            except Exception as e:
                fr = core.rockit_frame(sys.exc_info()[2])
                if fr is None and not isinstance(e, (RuntimeError, AssertionError, ValueError, IndexError)):
                    raise
                vios.append(dict(sig="exception:sample:%s" % (fr or type(e).__name__), tags=tags + ["grid=%s" % gtag], detail="%s: %s (%s on %s)" % (type(e).__name__, str(e)[:150], ast, gtag)))
    # ingredients against independent references (spec values, labelled grids)
    if case["chunk"] == 0:
        vios += ingredients(d, st, s, nlp, fake, tags)
        vios += placeholder_values(d, st, s, fake, sol, tags, pre_int)
    # dedup identical signatures within the case
    seen = set(); uniq = []
    for v in vios:
        k = (v["sig"], tuple(t for t in v["tags"] if t.startswith("grid=")))
        if k not in seen:
            seen.add(k); uniq.append(v)
    import hashlib
    return dict(violations=uniq, evaluations=max(evals, 1), traces=1, transitions=len(case["exprs"]) * len(GRIDS),
                outcome=hashlib.sha1(b"".join(hashes)).hexdigest()[:12], nontrivial=True,
                counts=dict(expressions=len(case["exprs"])),
                sample=dict(cfg=_trans.compact(d), first_expr=case["exprs"][0], n_exprs=len(case["exprs"])))


def placeholder_values(d, st, s, fake, sol, tags, pre_int):
    """value(e) for e built from boundary evaluations and integrals: at_t0 / at_tf are the first / last control-grid
    samples (time: t0, t0+T; a control at tf: the last interval's), and value of a combination is the combination of the values"""
    import casadi as ca
    vios = []
    num = lambda e: np.array(fake.value(e), dtype=float).reshape(-1)
    try:
        x = ca.vec(s["x"]); x0, x1 = x[0], x[1]
        u0 = ca.vec(s["u"])[0]
        xs = np.atleast_2d(np.array(fake.value(st.sample(x, grid="control")[1]), dtype=float)); xs = xs if xs.shape[0] == 2 else xs.T
        us = num(st.sample(u0, grid="control-")[1])
        T = float(num(st.value(st.T))[0]); t0 = float(num(st.value(st.t0))[0])
        parts = {"a": st.at_t0(x0), "b": st.at_tf(x0), "b1": st.at_tf(x1), "c": pre_int, "ut": st.at_tf(u0), "t0": st.at_t0(st.t), "tf": st.at_tf(st.t)}
        val = {k: float(num(st.value(v))[0]) for k, v in parts.items()}
        tcs = num(st.sample(st.t, grid="control")[1])
        # (time at the boundaries = the first / last node of the control grid; on localized grids the nodes are decision
        # variables and equal t0, t0+T only where the grid's own constraints hold)
        want = {"a": xs[0, 0], "b": xs[0, -1], "b1": xs[1, -1], "ut": us[-1], "t0": tcs[0], "tf": tcs[-1]}
        for k, w_ in want.items():
            if not NL.close(val[k], w_, 1e-10):
                vios.append(dict(sig="value:placeholder:%s" % k, tags=tags, detail="value of the boundary evaluation '%s' is %g, the sampled trajectory gives %g" % (k, val[k], w_)))
        e = 2 * parts["a"] - parts["b"] * parts["b1"] + 0.5 * parts["c"] + s["pg"] * st.T + ca.sin(parts["ut"]) * parts["tf"]
        pg = float(num(st.value(s["pg"]))[0])
        comb = 2 * val["a"] - val["b"] * val["b1"] + 0.5 * val["c"] + pg * T + np.sin(val["ut"]) * val["tf"]
        got = float(num(st.value(e))[0])
        if not NL.close(got, comb, 1e-10):
            vios.append(dict(sig="value:placeholder:combination", tags=tags, detail="value(2*at_t0(x0) - at_tf(x0)*at_tf(x1) + integral/2 + pg*T + sin(at_tf(u))*at_tf(t)) = %g, the same combination of the individual values = %g" % (got, comb)))
        got2 = float(np.array(sol.value(e), dtype=float).reshape(-1)[0])
        if not NL.close(got2, got, 1e-12):
            vios.append(dict(sig="value:placeholder:sol.value", tags=tags, detail="sol.value = %g, value = %g" % (got2, got)))
    except Exception as e_:
        import sys
        fr = core.rockit_frame(sys.exc_info()[2])
        if fr is None and not isinstance(e_, (RuntimeError, AssertionError)):
            raise
        vios.append(dict(sig="exception:placeholder:%s" % (fr or type(e_).__name__), tags=tags, detail="%s: %s" % (type(e_).__name__, str(e_)[:200])))
    return vios


def ingredients(d, st, s, nlp, fake, tags):
    """sampled primitives against references that do not go through the sampling code:
    per-interval values from the specification, times from the labelled grid, z from the collocation polynomial"""
    vios = []
    N, M = d["N"], d["M"]
    pc = np.asarray(P.pc_table(d), dtype=float).reshape(-1)
    tc = np.array(fake.value(st.sample(st.t, grid="control")[1])).reshape(-1)
    for grid, refine in GRIDS:
        if grid == "integrator_roots" and d["method"] != "DC":
            continue
        kw = {} if refine is None else {"refine": refine}
        gtag = "%s%s" % (grid, "" if refine is None else ":refine=%d" % refine)
        try:
            t, v = st.sample(s["pc"], grid=grid, **kw)
            tv = np.array(fake.value(t)).reshape(-1); pv = np.array(fake.value(v)).reshape(-1)
            tu, uu = st.sample(s["u"], grid=grid, **kw)
            us = np.array(fake.value(uu)).reshape(-1)
            U = np.array(fake.value(st.sample(s["u"], grid="control-")[1])).reshape(-1)
        except Exception as e:
            continue
        n = min(len(tv), len(pv))
        per = {"control": 1, "control-": 1, "integrator": M * (refine or 1), "integrator_roots": M * d["degree"]}[grid]
        # horizon symbols inside a sampled expression are the same numbers at every point of every grid
        try:
            Tv = float(np.array(fake.value(st.value(st.T))).reshape(-1)[0]); t0v = float(np.array(fake.value(st.value(st.t0))).reshape(-1)[0])
            for nm_, sy_, wv_ in (("T", st.T, Tv), ("t0", st.t0, t0v), ("tf", st.tf, t0v + Tv), ("t-t0", st.t - st.t0, None)):
                got_ = np.array(fake.value(st.sample(sy_, grid=grid, **kw)[1])).reshape(-1)
                want_ = np.full(got_.shape, wv_) if wv_ is not None else (tv[:len(got_)] - t0v)
                if len(got_) != len(tv) or not NL.close(got_, want_, 1e-10):
                    vios.append(dict(sig="value:ingredient:horizon:%s" % grid, tags=tags + ["grid=%s" % gtag], detail="sample(%s) on this grid gives %s, expected %s" % (nm_, np.round(got_, 6).tolist()[:6], np.round(want_, 6).tolist()[:6])))
                    break
        except Exception:
            pass
        # the returned time stamps ARE the sampled time: sample(t) on the same grid, entry by entry; on the control
        # grids they are the control nodes themselves
        try:
            tt = np.array(fake.value(st.sample(st.t, grid=grid, **kw)[1])).reshape(-1)
        except Exception:
            tt = None
        if tt is not None and (len(tt) != len(tv) or not NL.close(tt, tv, 1e-10)):
            vios.append(dict(sig="value:ingredient:stamps:%s" % grid, tags=tags + ["grid=%s" % gtag], detail="time stamps returned with the samples %s differ from the sampled time %s" % (np.round(tv, 6).tolist()[:6], np.round(tt, 6).tolist()[:6])))
            continue
        if grid in ("control", "control-") and (len(tv) != N + (grid == "control") or not NL.close(tv, tc[:len(tv)], 1e-10)):
            vios.append(dict(sig="value:ingredient:stamps:%s" % grid, tags=tags + ["grid=%s" % gtag], detail="time stamps %s are not the control nodes %s" % (np.round(tv, 6).tolist()[:6], np.round(tc, 6).tolist()[:6])))
            continue
        for i in range(n):
            # interval that owns the i-th sampled point (final node: own entry for control+, last interval otherwise)
            if grid != "integrator_roots" and i == N * per:
                k = N if d["pc"] == "control+" else N - 1
                ku = N - 1
            else:
                k = min(i // per, N - 1)
                ku = k
            a_, b_ = tc[min(k, N - 1)], tc[min(k, N - 1) + 1]      # (localized grids: generic decision vectors need not order the nodes)
            if not (min(a_, b_) - 1e-9 <= tv[i] <= max(a_, b_) + 1e-9):
                vios.append(dict(sig="value:ingredient:time:%s" % grid, tags=tags + ["grid=%s" % gtag], detail="time stamp %g of sampled point %d lies outside its control interval" % (tv[i], i)))
                break
            if abs(pv[i] - pc[k]) > 1e-12:
                vios.append(dict(sig="value:ingredient:pc:%s" % grid, tags=tags + ["grid=%s" % gtag], detail="sampled per-interval parameter at t=%g is %g, declared value %g (entry %d)" % (tv[i], pv[i], pc[k], k)))
                break
            if abs(us[i] - U[ku]) > 1e-12:
                vios.append(dict(sig="value:ingredient:u:%s" % grid, tags=tags + ["grid=%s" % gtag], detail="sampled control at t=%g is %g, interval %d has %g" % (tv[i], us[i], ku, U[ku])))
                break
    if d["alg"] and d["method"] == "DC":
        col = RT.colloc(d["degree"], d["scheme"])
        tr, zr = st.sample(s["z"], grid="integrator_roots")
        zr = np.array(fake.value(zr)).reshape(-1)
        deg = d["degree"]

        def zpoly(k, l, tau):
            zz = zr[(k * M + l) * deg:(k * M + l + 1) * deg]
            val = 0.0
            for j in range(deg):
                lj = 1.0
                for r_ in range(deg):
                    if r_ != j:
                        lj *= (tau - col["tau"][r_]) / (col["tau"][j] - col["tau"][r_])
                val += zz[j] * lj
            return val
        zi = np.array(fake.value(st.sample(s["z"], grid="integrator")[1])).reshape(-1)
        zc = np.array(fake.value(st.sample(s["z"], grid="control")[1])).reshape(-1)
        want_i = [zpoly(k, l, 0.0) for k in range(N) for l in range(M)] + [zpoly(N - 1, M - 1, 1.0)]
        want_c = [zpoly(k, 0, 0.0) for k in range(N)] + [zpoly(N - 1, M - 1, 1.0)]
        if not NL.close(zi, np.array(want_i), 1e-9):
            vios.append(dict(sig="value:ingredient:z:integrator", tags=tags, detail="algebraic variable on the integrator grid %s vs its collocation polynomial %s" % (np.round(zi, 5), np.round(want_i, 5))))
        if not NL.close(zc, np.array(want_c), 1e-9):
            vios.append(dict(sig="value:ingredient:z:control", tags=tags, detail="algebraic variable on the control grid %s vs its collocation polynomial %s" % (np.round(zc, 5), np.round(want_c, 5))))
        for rf in (2, 3):
            tf_, zf = st.sample(s["z"], grid="integrator", refine=rf)
            zf = np.array(fake.value(zf)).reshape(-1)
            want = [zpoly(k, l, q / rf) for k in range(N) for l in range(M) for q in range(rf)] + [zpoly(N - 1, M - 1, 1.0)]
            if not NL.close(zf, np.array(want), 1e-9):
                vios.append(dict(sig="value:ingredient:z:refine", tags=tags, detail="algebraic variable with refine=%d vs its collocation polynomial" % rf))
    return vios


def describe(tier):
    return dict(
        rule="every expression AST up to depth %s over atoms {x (vector), x_i, u, t, per-interval parameter (control+), per-interval variable, algebraic, global parameter, global variable, T, t0} with unary {sin, square, neg, affine}, binary {mul, add, sub} and shape constructors {column, row, 2x2 matrix, vector x scalar} x 7 grid options (control, control-, integrator, integrator refine 1/2/3, integrator_roots) x 9-12 method configurations: sample(e) evaluated at a generic decision vector = e applied to the sampled ingredients and sampled time; value(e) likewise; sol.sample / sol.value driven through a solver-free solution object = the symbolic path, with the shape rule [i,r,c] and one time stamp per entry; value of boundary evaluations (at_t0 / at_tf of states, a control, time), of an integral and of a nonlinear combination of them = the first / last samples and the combination of the individual values; sampled ingredients vs independent references (declared per-interval values, interval controls, collocation polynomial of z)" % ("3" if tier == "thorough" else "2"),
        bound="AST depth %d" % (3 if tier == "thorough" else 2),
        assumptions=["a solver-free solution object (FakeSol) stands for the solver's decision vector", "CasADi Function evaluation is trusted"])

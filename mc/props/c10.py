"""C10  The solver starts from exactly the user's initial guess."""
import copy
import numpy as np
from .. import program as P, explore, core, nlp as NL, hist, reftrans as RT
from ..backends import NP
from . import _trans

ID = "C10"
CHUNK = 4
OWN = ("dyn", "path", "point", "obj", "extra", "x0")

TARGETS = ["x", "u", "vg", "vc", "z", "T", "t0"]
FORMS = {
    "x": ["const", "vec", "arrN", "arrN1", "expr", "const_int", "const_np0d"],
    "u": ["const", "arrN", "arrN1", "np1dN", "np1dN1", "dmrowN1", "expr", "const_int", "const_npscalar", "const_dm"],
    "vg": ["const", "const_int", "const_np0d", "const_dm", "const_np1"],
    "vc": ["const", "arrN", "arrN1", "np1dN1", "expr"],
    "z": ["const", "expr"],
    "T": ["const"],
    "t0": ["const"],
}
DIMS = dict(
    target=["x", "u", "vg", "vc", "z", "T", "t0"],
    form=["const", "vec", "arrN", "arrN1", "np1dN", "np1dN1", "dmrowN1", "expr", "const_int", "const_np0d", "const_npscalar", "const_dm", "const_np1"],
    second=["none", "same_target_other", "T_after", "T_before", "u_expr"],
    method=["MS", "SS", "DC"],
    N=[2, 1, 3],
    M=[1, 2],
    degree=[2, 1, 3],
    grid=["uniform", "geom", "uniform_lt0", "geom_lT", "free"],
    horizon=["Tfree", "fixed", "bothfree"],
    vc=["control", "control+"],
    state=["vec2", "scalar"],
    scale=[1, 3],
)


def value_for(target, form, d, which=0):
    if form == "const_int":
        return 1 + which
    if form.startswith("const"):
        return {"x": 0.8, "u": -0.3, "vg": 0.6, "vc": 0.45, "z": 0.7, "T": 3.1, "t0": -0.2}[target] + 0.25 * which
    if form == "vec":
        return [0.8 + 0.25 * which, 0.35]
    if form == "expr":
        return "lin" if which == 0 else "sin"
    return which   # table selector


def entry(target, form, d, which=0):
    return [target, form, value_for(target, form, d, which)]


def finish(a):
    a = dict(a)
    target, form, second, scale = a.pop("target"), a.pop("form"), a.pop("second"), a.pop("scale")
    if form not in FORMS[target]:
        return None
    if form == "vec" and a["state"] != "vec2":
        return None
    if target == "z":
        a["method"] = "DC"
    if target == "t0" and a["horizon"] != "bothfree":
        a["horizon"] = "bothfree"
    if target == "T" and a["horizon"] == "fixed":
        a["horizon"] = "Tfree"
    d = P.case(vg=True, alg=(target == "z"), **a)
    d["cons"] = [P.con("bc0"), P.con("u_between")]
    d["obj"] = ["mayer_tf", "integral", "vg", "integral_vc"] + (["T"] if a["horizon"] != "fixed" else []) + (["int_z"] if target == "z" else [])
    if scale != 1:
        d["scales"] = {"x": scale, "u": scale, "vg": scale, "vc": scale}
    init = [entry(target, form, d)]
    free = a["horizon"] in ("Tfree", "bothfree")
    if second == "same_target_other":
        init.append(entry(target, form, d, 1))
    elif second == "T_after" and free and target != "T":
        init.append(["T", "const", 3.1])
    elif second == "T_before" and free and target != "T":
        init.insert(0, ["T", "const", 0.9])
    elif second == "u_expr" and target != "u":
        init.append(["u", "expr", "sin"])
    d["init"] = init
    return d


HBASE = P.case(state="scalar", horizon="Tfree", vg=True, cons=[P.con("bc0")], obj=["mayer_tf", "integral", "T", "vg"], method="MS", N=2)
HALPHA = [
    ["set_initial", "x", "expr", "lin"], ["set_initial", "x", "expr", "sin"], ["set_initial", "x", "const", 0.4], ["set_initial", "u", "expr", "sin"],
    ["set_initial", "u", "arrN", 0], ["set_initial", "T", "const", 3.1], ["set_initial", "T", "const", 0.8],
    ["set_initial", "vg", "const", 0.6], ["query", "sample"], ["solve"], ["subject_to", P.con("x_le")], ["method", "DC2"],
]


HALPHA3 = [["set_initial", "x", "const", 0.4], ["set_initial", "x", "expr", "lin"], ["query", "sample"], ["subject_to", P.con("x_le")]]
HGRIDS = ["uniform_lT", "uniform_lt0", "free", "geom_lt0_lT"]
HALPHA2 = [["set_initial", "T", "const", 3.1], ["set_initial", "T", "const", 0.8], ["set_initial", "x", "expr", "lin"], ["set_initial", "u", "expr", "sin"], ["query", "sample"], ["solve"]]


def cases(tier):
    k = 3 if tier == "thorough" else 2
    out = []; seen = set()

    def add(a, dev):
        d = finish(a)
        if d is None: return
        h = explore.sha(d)
        if h not in seen:
            seen.add(h); out.append(dict(kind="product", d=d, dev=dev))
    for a, dev in explore.deviations(DIMS, k):
        add(a, dev)
    # full target x form x method x grid table (+ a guess of T after it when the horizon is free)
    for t in TARGETS:
        for f in FORMS[t]:
            for meth in DIMS["method"]:
                for g in ("uniform", "geom"):
                    for sec in ("none", "T_after"):
                        for M in (1, 2):
                            a = {n: DIMS[n][0] for n in DIMS}
                            a.update(target=t, form=f, method=meth, grid=g, second=sec, M=M, N=3)
                            add(a, ["target", "form", "method", "grid", "second", "M", "N"])
    from ..common import have_networkx
    if have_networkx():
        for L in (1, 2, 3):
            for N in (1, 2, 4):
                for g in ("uniform", "geom"):
                    for form in ("const", "affine"):
                        out.append(dict(kind="spline", L=L, N=N, grid=g, form=form, horizon="fixed"))
                        for order in ("guess_first", "T_first"):
                            out.append(dict(kind="spline", L=L, N=N, grid=g, form=form, horizon="Tfree", order=order))
    # SplineMethod: one vector-valued state whose components sit in integrator chains of different lengths
    if have_networkx():
        for N in (2, 4):
            for g in ("uniform", "geom"):
                for form in ("const", "affine"):
                    for when in ("before", "after"):
                        out.append(dict(kind="spline_vec", N=N, grid=g, form=form, when=when))
    # several algebraic variables of different widths (DirectCollocation): every guess lands on its own variable
    for widths in ((2, 1, 1), (1, 2, 1), (1, 1), (3, 1)):
        for which in range(len(widths)):
            for form in ("const", "expr"):
                for when in ("before", "after"):
                    for M in (1, 2):
                        out.append(dict(kind="dae_multi", widths=list(widths), which=which, form=form, when=when, M=M, degree=2 if M == 2 else 3))
    # DAE whose algebraic equation has two branches: the guess of z selects the branch the integrator follows, so it is
    # part of what the solver receives also under the shooting methods (where z is not a decision variable)
    BOPS = ["solve", "set_u", "edit", "set_z_low", "set_z_high", "query"]
    for meth in ("MS_collocation", "MS_idas", "SS_collocation", "DC"):
        for h in explore.histories(list(range(len(BOPS))), 3):
            out.append(dict(kind="dae_branch", method=meth, ops=[BOPS[i] for i in h]))
    # global variables whose own shape has N or N+1 columns (must not be mistaken for one column per interval)
    for meth in ("MS", "SS", "DC"):
        for N in (2, 3):
            for shape in ("1xN", "1xN1", "2xN", "Nx1"):
                for form in ("const", "matrix"):
                    for when in ("before", "after"):
                        out.append(dict(kind="vshape", method=meth, N=N, shape=shape, form=form, when=when))
    depth = 4 if tier == "thorough" else 3
    for h in explore.histories(list(range(len(HALPHA))), depth):
        if h:
            out.append(dict(kind="history", ops=[HALPHA[i] for i in h]))
    # histories on grids that carry their own time variables (localized / free): a guess of the horizon given after
    # a transcription has to move them like one given before
    for g in HGRIDS:
        for h in explore.histories(list(range(len(HALPHA2))), depth):
            if h:
                out.append(dict(kind="history", grid=g, ops=[HALPHA2[i] for i in h]))
                # the same with the horizon given as a user variable (set_T(v)) whose guess is set through v
                if any(HALPHA2[i][1] == "T" for i in h if HALPHA2[i][0] == "set_initial"):
                    out.append(dict(kind="history", grid=g, horizon="Tvar", ops=[([o[0], "Tv"] + o[2:]) if (o[0] == "set_initial" and o[1] == "T") else o for o in (HALPHA2[i] for i in h)]))
    # histories on an Ocp whose method is DirectCollocation from the start: the SAME method object transcribes twice
    # (helper states at the collocation times must start on the guesses after a re-transcription as well)
    for bm in (dict(method="DC", degree=2, M=1), dict(method="DC", degree=3, M=2, scheme="legendre")):
        for h in explore.histories(list(range(len(HALPHA3))), depth):
            if h and any(HALPHA3[i][0] in ("query", "subject_to") for i in h):
                out.append(dict(kind="history", base_method=bm, ops=[HALPHA3[i] for i in h]))
    return out


UNSPEC = np.nan


def ref_guess(d):
    """expected starting values (physical units) per labelled quantity; NaN = not pinned by the statement"""
    N, M = d["N"], d["M"]
    hz = d["horizon"]
    last = {}
    for t, f, v in d["init"]:
        last[t] = (f, v)       # the last call for a symbol wins
    T = d["TT"] if d.get("Tguess") is None else d["Tguess"]
    t0 = d["T0"] if d.get("t0guess") is None else d["t0guess"]
    if "T" in last and hz in ("Tfree", "bothfree"): T = last["T"][1]
    if "t0" in last and hz in ("t0free", "bothfree"): t0 = last["t0"][1]
    kind, opts = P.grid_kind_opts(d)
    n = RT.normalized(kind, opts, N)
    tc = None if n is None else np.array([t0 + T * e for e in n])
    out = {"T": np.array([[T]]), "t0": np.array([[t0]])}
    nx = P.nx_of(d); nu = P.nu_of(d)

    def at_times(spec, rows, times, per="node"):
        """rows x len(times) table of the guess"""
        res = np.zeros((rows, len(times)))
        if spec is None:
            return res
        f, v = spec
        if f.startswith("const"):
            res[:] = float(v)
        elif f == "vec":
            res[:] = np.array(v, dtype=float).reshape(-1, 1)
        elif f == "expr":
            if times is None or any(t is None for t in times):
                res[:] = UNSPEC
            else:
                g = np.array([float(P.GUESS[v](NP, t)) for t in times]).reshape(1, -1)
                res[:] = np.array([[1 + 0.5 * i] for i in range(rows)]) * g
        else:
            res[:] = UNSPEC
        return res
    nodes = list(tc) if tc is not None else [None] * (N + 1)
    # states at control nodes
    sx = last.get("x")
    X = at_times(sx, nx, nodes)
    if sx is not None and sx[0] in ("arrN", "arrN1"):
        cols = N if sx[0] == "arrN" else N + 1
        tab = P.guess_table(nx, cols, sx[1])
        X[:] = UNSPEC
        X[:, :cols] = tab[:, :cols]
    out["X"] = X
    if d["method"] == "DC":
        if tc is not None:
            ti = [tc[k] + l * (tc[k + 1] - tc[k]) / M for k in range(N) for l in range(M)] + [tc[N]]
            col = RT.colloc(d["degree"], d["scheme"])
            tr = [tc[k] + (l + tau) * (tc[k + 1] - tc[k]) / M for k in range(N) for l in range(M) for tau in col["tau"]]
        else:
            ti = [None] * (N * M + 1); tr = [None] * (N * M * d["degree"])
        Xi = at_times(sx, nx, ti)
        Xr = at_times(sx, nx, tr)
        if sx is not None and sx[0] in ("arrN", "arrN1"):
            Xi[:] = UNSPEC; Xr[:] = UNSPEC
            for k in range(N + 1):
                if not np.isnan(X[0, k]): Xi[:, k * M] = X[:, k]
        out["Xi"] = Xi; out["Xr"] = Xr
        if d["alg"]:
            out["Zr"] = at_times(last.get("z"), 1, tr)
    # controls: interval start times
    su = last.get("u")
    if nu:
        U = at_times(su, nu, nodes[:N])
        if su is not None and su[0] in ("arrN", "arrN1", "np1dN", "np1dN1", "dmrowN1"):
            cols = N if su[0] in ("arrN", "np1dN") else N + 1
            U = P.guess_table(nu, cols, su[1])[:, :N]
        out["U"] = U
    if d["vg"]:
        out["vg"] = at_times(last.get("vg"), 1, [0.0])
    if d["vc"]:
        sv = last.get("vc")
        nn = N + 1 if d["vc"] == "control+" else N
        V = at_times(sv, 1, nodes[:nn])
        if sv is not None and sv[0] in ("arrN", "arrN1", "np1dN1"):
            cols = N if sv[0] == "arrN" else N + 1
            tab = P.guess_table(1, cols, sv[1])
            V = np.full((1, nn), UNSPEC)
            V[:, :min(nn, cols)] = tab[:, :min(nn, cols)]
        out["vc"] = V
    return out


def check_x0(d, nlp, tags):
    vios = []
    exp = ref_guess(d)
    q0 = nlp.read(nlp.x0, extra=nlp.extra0)
    skipped = 0
    for key, want in exp.items():
        if key not in q0: continue
        got = np.asarray(q0[key], dtype=float)
        want = np.asarray(want, dtype=float)
        if d["method"] == "SS" and key == "X":
            got = got.reshape(want.shape[0], -1, order="F")[:, :1]; want = want[:, :1]
        elif d["method"] == "MS" and key == "Xi":
            continue
        got = got.reshape(want.shape, order="F") if got.size == want.size else got
        if got.shape != want.shape:
            vios.append(dict(sig="value:x0:%s:shape" % key, tags=tags, detail="%s vs %s" % (got.shape, want.shape))); continue
        mask = ~np.isnan(want)
        skipped += int(np.sum(~mask))
        if not NL.close(got[mask], want[mask], 1e-9):
            bad = np.argwhere(mask & ~(np.abs(got - np.where(mask, want, 0)) <= 1e-9 * (1 + np.abs(got))))
            vios.append(dict(sig="value:x0:%s" % key, tags=tags, detail="starting %s = %s, guess gives %s (first bad entry %s)" % (key, np.round(got, 5).tolist(), np.round(want, 5).tolist(), bad[0].tolist() if len(bad) else "?")))
    return vios, skipped


def x0_check(case, res, tags):
    d = case["d"]
    vios, skipped = check_x0(d, res.nlp, tags)
    for v in vios:
        v["tags"] = v["tags"] + ["target=%s" % t for t, f, _ in d["init"]] + ["form=%s" % f for t, f, _ in d["init"]]
    res.skipped = skipped
    return vios


def run_spline(case):
    """SplineMethod: a guess for the head of an integrator chain (constant, or affine in time: reproduced exactly by
    spline coefficients at the Greville points) is the starting trajectory of the head, and the lower chain members start
    at its time derivatives; node times follow the guessed horizon"""
    import rockit, casadi as ca, sys
    from .c17 import rockit_grid, norm_grid
    L, N, g, form, hz = case["L"], case["N"], case["grid"], case["form"], case["horizon"]
    tags = ["method=Spline", "L=%d" % L, "N=%d" % N, "grid=%s" % g, "form=%s" % form, "horizon=%s" % hz]
    vios = []
    try:
        t0, Tg = 0.4, 1.7
        ocp = rockit.Ocp(t0=t0, T=rockit.FreeTime(Tg) if hz == "Tfree" else Tg)
        xs = [ocp.state() for _ in range(L)]
        u = ocp.control()
        for i in range(L):
            ocp.set_der(xs[i], xs[i + 1] if i + 1 < L else u)
        ocp.subject_to(-5 <= (u <= 5)); ocp.subject_to(ocp.at_t0(xs[0]) == 0.1)
        ocp.add_objective(ocp.at_tf(xs[0] ** 2) + ocp.sum(u * u) + (ocp.T if hz == "Tfree" else 0))
        a, b = 0.35, (0.6 if form == "affine" else 0.0)
        order = case.get("order", "guess_first")
        if hz == "Tfree" and order == "T_first":
            ocp.set_initial(ocp.T, 2.6)
        ocp.set_initial(xs[0], a + b * ocp.t if form == "affine" else a)
        if hz == "Tfree" and order == "guess_first":
            ocp.set_initial(ocp.T, 2.6)
        ocp.solver("ipopt", {"ipopt.print_level": 0, "print_time": False, "ipopt.sb": "yes"})
        ocp.method(rockit.SplineMethod(N=N, grid=rockit_grid(g)))
        nlp = NL.Nlp(ocp)
        T = 2.6 if hz == "Tfree" else Tg
        tc = t0 + T * norm_grid(g, N)
        F = ca.Function("f", [nlp.x, nlp.p], [ocp.sample(xs[0], grid="control")[0]] + [ocp.sample(e, grid="control")[1] for e in xs + [u]], {"allow_free": True})
        if F.has_free():
            fr = F.free_mx()
            F2 = ca.Function("f", [nlp.x, nlp.p] + fr, [ocp.sample(xs[0], grid="control")[0]] + [ocp.sample(e, grid="control")[1] for e in xs + [u]])
            out = F2(nlp.x0, nlp.p0, *[nlp.opti.debug.value(q_, nlp.opti.initial()) for q_ in fr])
        else:
            out = F(nlp.x0, nlp.p0)
        out = [np.array(o).reshape(-1) for o in out]
        if not NL.close(out[0], tc, 1e-9):
            vios.append(dict(sig="value:x0:spline:times", tags=tags, detail="starting node times %s vs those of the guessed horizon %s" % (np.round(out[0], 4), np.round(tc, 4))))
        want = [a + b * tc] + ([np.full(N + 1, b)] if L >= 1 else []) + [np.zeros(N + 1)] * (L - 1)
        names = ["x%d" % i for i in range(L)] + ["u"]
        for nm, got, w_ in zip(names, out[1:], want):
            if not NL.close(got, w_, 1e-8):
                vios.append(dict(sig="value:x0:spline:%s" % ("head" if nm == "x0" else "derived"), tags=tags, detail="starting %s = %s, the guess implies %s" % (nm, np.round(got, 5), np.round(w_, 5))))
                break
    except Exception as e:
        fr_ = core.rockit_frame(sys.exc_info()[2])
        if fr_ is None and not isinstance(e, (RuntimeError, AssertionError, AttributeError)):
            raise
        vios.append(dict(sig="exception:spline:%s" % (fr_ or type(e).__name__), tags=tags, detail="%s: %s" % (type(e).__name__, str(e)[:200])))
    return dict(violations=vios, evaluations=L + 2, traces=1, transitions=3, outcome=explore.sha(case), nontrivial=True, sample=case)


def run_dae_multi(case):
    """DAE with several algebraic variables of different widths under DirectCollocation: a guess given for one of them
    (before / after a first transcription) is the start value of exactly that variable at every collocation time; the
    others start at 0"""
    import rockit, casadi as ca, sys
    widths, which, form, when, M, deg = case["widths"], case["which"], case["form"], case["when"], case["M"], case["degree"]
    tags = ["method=DC", "widths=%s" % widths, "target=z%d" % which, "form=%s" % form, "when=%s" % when, "M=%d" % M]
    vios = []
    try:
        t0, T, N = -0.4, 1.6, 2
        ocp = rockit.Ocp(t0=t0, T=T)
        x = ocp.state(); u = ocp.control()
        zs = [ocp.algebraic(wd) for wd in widths]
        ocp.set_der(x, -x + u + sum(ca.sum1(z_) for z_ in zs))
        for i, z_ in enumerate(zs):
            ocp.add_alg(z_ - (0.3 + 0.1 * i) * x - 0.05 * ocp.t)
        ocp.subject_to(ocp.at_t0(x) == 0.5); ocp.subject_to(-1 <= (u <= 1))
        ocp.add_objective(ocp.integral(x * x + u * u))
        ocp.solver("ipopt", {"ipopt.print_level": 0, "print_time": False, "ipopt.sb": "yes", "ipopt.max_iter": 0})
        ocp.method(rockit.DirectCollocation(N=N, M=M, degree=deg))
        guess = (0.45 + 0.2 * ocp.t) if form == "expr" else 0.45
        if when == "after":
            ocp.solve_limited()
        ocp.set_initial(zs[which], guess)
        nlp = NL.Nlp(ocp)
        F = ca.Function("f", [nlp.x, nlp.p], [ocp.sample(ocp.t, grid="integrator_roots")[1]] + [ocp.sample(z_, grid="integrator_roots")[1] for z_ in zs])
        out = [np.array(o) for o in F(nlp.x0, nlp.p0)]
        tr = out[0].reshape(-1)
        for i, (wd, got) in enumerate(zip(widths, out[1:])):
            got = np.atleast_2d(got); got = got.reshape(wd, -1, order="F") if got.shape[0] != wd else got
            if i == which:
                want = np.tile((0.45 + 0.2 * tr) if form == "expr" else np.full(tr.shape, 0.45), (wd, 1))
            else:
                want = np.zeros((wd, tr.size))
            if got.shape != want.shape or not NL.close(got, want, 1e-9):
                vios.append(dict(sig="value:x0:algebraic:%s" % ("target" if i == which else "other"), tags=tags, detail="start values of algebraic %d (width %d) are %s, the guesses imply %s" % (i, wd, np.round(got, 4).tolist(), np.round(want, 4).tolist())))
                break
    except Exception as e:
        fr_ = core.rockit_frame(sys.exc_info()[2])
        if fr_ is None and not isinstance(e, (RuntimeError, AssertionError, AttributeError)):
            raise
        vios.append(dict(sig="exception:dae_multi:%s" % (fr_ or type(e).__name__), tags=tags, detail="%s: %s" % (type(e).__name__, str(e)[:200])))
    return dict(violations=vios, evaluations=len(widths), traces=1, transitions=2, outcome=explore.sha(case), nontrivial=True, sample=case)


def branch_program(meth, zguess, uguess, edited):
    import rockit, casadi as ca
    ocp = rockit.Ocp(t0=0.1, T=1.2)
    x = ocp.state(); u = ocp.control(); z = ocp.algebraic()
    ocp.set_der(x, -x + u + 0.2 * z)
    ocp.add_alg((z - 1) * (z - 5))          # two isolated roots: the start value of z selects one
    ocp.subject_to(ocp.at_t0(x) == 0.5); ocp.subject_to(-1 <= (u <= 1))
    if edited:
        ocp.subject_to(x <= 4)
    ocp.add_objective(ocp.integral(x * x + u * u))
    ocp.set_initial(z, zguess)
    if uguess is not None:
        ocp.set_initial(u, uguess)
    ocp.solver("ipopt", hist.SOLVER_OPTS["A"])
    m_, ig = (meth.split("_") + [None])[:2]
    ocp.method({"MS": lambda: rockit.MultipleShooting(N=2, intg=ig), "SS": lambda: rockit.SingleShooting(N=2, intg=ig), "DC": lambda: rockit.DirectCollocation(N=2, degree=2)}[m_]())
    return ocp, dict(x=x, u=u, z=z)


def run_dae_branch(case):
    import sys
    meth, ops = case["method"], case["ops"]
    tags = ["method=%s" % meth, "dae_branch"] + sorted(set(("post:" if "solve" in ops[:i] or "query" in ops[:i] else "pre:") + o for i, o in enumerate(ops) if o not in ("solve", "query")))
    vios = []
    try:
        hist.SPY.install()
        zg, ug, edited = 4.5, None, False
        ocp, s_ = branch_program(meth, zg, ug, edited)
        for o in ops:
            if o == "solve": ocp.solve_limited()
            elif o == "query": ocp.sample(s_["x"], grid="control")
            elif o == "set_u": ocp.set_initial(s_["u"], 0.3); ug = 0.3
            elif o == "edit":
                if not edited:
                    ocp.subject_to(s_["x"] <= 4); edited = True
            elif o == "set_z_low": ocp.set_initial(s_["z"], 0.2); zg = 0.2
            elif o == "set_z_high": ocp.set_initial(s_["z"], 4.5); zg = 4.5
        r = P.Real(); r.ocp = ocp
        obs = hist.observe(r)
        of, _ = branch_program(meth, zg, ug, edited)
        rf = P.Real(); rf.ocp = of
        fresh = hist.observe(rf)
        if "error" in obs or "error" in fresh:
            vios.append(dict(sig="exception:observe", tags=tags, detail=str(obs.get("error") or fresh.get("error"))[:200]))
        else:
            df = hist.obs_equal(obs, fresh)
            if df:
                vios.append(dict(sig="stale:" + "+".join(df), tags=tags, detail="after %s the next solve differs from a fresh OCP with the same guesses (z guess %g selects the branch) in %s" % (ops, zg, df)))
    except Exception as e:
        fr_ = core.rockit_frame(sys.exc_info()[2])
        if fr_ is None and not isinstance(e, (RuntimeError, AssertionError, AttributeError)):
            raise
        vios.append(dict(sig="exception:dae_branch:%s" % (fr_ or type(e).__name__), tags=tags, detail="%s: %s" % (type(e).__name__, str(e)[:200])))
    return dict(violations=vios, evaluations=2, traces=2, transitions=len(ops) + 1, outcome=explore.sha([case, [v["sig"] for v in vios]]), nontrivial=True, sample=case)


def run_vshape(case):
    """a global (matrix-valued) variable whose own shape happens to have N or N+1 columns: its guess is its start value,
    entry by entry"""
    import rockit, casadi as ca, sys
    meth, N, shape, form, when = case["method"], case["N"], case["shape"], case["form"], case["when"]
    tags = ["method=%s" % meth, "N=%d" % N, "shape=%s" % shape, "form=%s" % form, "when=%s" % when]
    vios = []
    try:
        rr, cc = {"1xN": (1, N), "1xN1": (1, N + 1), "2xN": (2, N), "Nx1": (N, 1)}[shape]
        ocp = rockit.Ocp(t0=0.2, T=1.5)
        x = ocp.state(); u = ocp.control()
        wv = ocp.variable(rr, cc)
        ocp.set_der(x, -x + u)
        ocp.subject_to(ocp.at_t0(x) == 0.5); ocp.subject_to(-1 <= (u <= 1))
        ocp.add_objective(ocp.integral(x * x + u * u) + ca.sumsqr(wv - 0.3))
        ocp.solver("ipopt", {"ipopt.print_level": 0, "print_time": False, "ipopt.sb": "yes", "ipopt.max_iter": 0})
        ocp.method({"MS": rockit.MultipleShooting(N=N), "SS": rockit.SingleShooting(N=N), "DC": rockit.DirectCollocation(N=N, degree=2)}[meth])
        want = np.full((rr, cc), 0.45) if form == "const" else np.array([[0.4 + 0.35 * r_ - 0.6 * c_ + 0.1 * c_ * c_ for c_ in range(cc)] for r_ in range(rr)])
        if when == "after":
            ocp.solve_limited()
        ocp.set_initial(wv, 0.45 if form == "const" else want)
        nlp = NL.Nlp(ocp)
        got = np.array(ca.Function("f", [nlp.x, nlp.p], [ocp.value(wv)])(nlp.x0, nlp.p0)).reshape(rr, cc)
        if not NL.close(got, want, 1e-9):
            vios.append(dict(sig="value:x0:global-matrix-variable", tags=tags, detail="start value of a %dx%d global variable is %s, the guess is %s" % (rr, cc, np.round(got, 4).tolist(), np.round(want, 4).tolist())))
    except Exception as e:
        fr_ = core.rockit_frame(sys.exc_info()[2])
        if fr_ is None and not isinstance(e, (RuntimeError, AssertionError, AttributeError)):
            raise
        vios.append(dict(sig="exception:vshape:%s" % (fr_ or type(e).__name__), tags=tags, detail="%s: %s" % (type(e).__name__, str(e)[:200])))
    return dict(violations=vios, evaluations=1, traces=1, transitions=2, outcome=explore.sha(case), nontrivial=True, sample=case)


def run_spline_vec(case):
    """SplineMethod, p = state(2) with p0' = v, v' = u1 (chain of length 2) and p1' = u2 (length 1): a vector guess for p
    gives every component its own guess"""
    import rockit, casadi as ca, sys
    from .c17 import rockit_grid, norm_grid
    N, g, form, when = case["N"], case["grid"], case["form"], case["when"]
    tags = ["method=Spline", "vector_state_mixed_chains", "N=%d" % N, "grid=%s" % g, "form=%s" % form, "when=%s" % when]
    vios = []
    try:
        t0, T = 0.4, 1.7
        ocp = rockit.Ocp(t0=t0, T=T)
        p = ocp.state(2); v = ocp.state(); u1 = ocp.control(); u2 = ocp.control()
        ocp.set_der(p, ca.vertcat(v, u2)); ocp.set_der(v, u1)
        ocp.subject_to(-5 <= (u1 <= 5)); ocp.subject_to(-5 <= (u2 <= 5)); ocp.subject_to(ocp.at_t0(p) == ca.vertcat(0.1, 0.2))
        ocp.add_objective(ocp.at_tf(ca.sumsqr(p)) + ocp.sum(u1 * u1 + u2 * u2))
        ocp.solver("ipopt", {"ipopt.print_level": 0, "print_time": False, "ipopt.sb": "yes", "ipopt.max_iter": 0})
        ocp.method(rockit.SplineMethod(N=N, grid=rockit_grid(g)))
        a = np.array([7.0, 8.0]); b = np.array([0.6, -0.45]) if form == "affine" else np.zeros(2)
        if when == "after":
            ocp.solve_limited()
        ocp.set_initial(p, ca.vertcat(a[0] + b[0] * ocp.t, a[1] + b[1] * ocp.t) if form == "affine" else ca.DM(a))
        nlp = NL.Nlp(ocp)
        tc = t0 + T * norm_grid(g, N)
        F = ca.Function("f", [nlp.x, nlp.p], [ocp.sample(p, grid="control")[1]])
        got = np.array(F(nlp.x0, nlp.p0)); got = got if got.shape[0] == 2 else got.T
        want = np.array([a[i] + b[i] * tc for i in range(2)])
        if got.shape != want.shape or not NL.close(got, want, 1e-8):
            vios.append(dict(sig="value:x0:spline:vector-state", tags=tags, detail="starting p = %s, the guess implies %s" % (np.round(got, 4).tolist(), np.round(want, 4).tolist())))
    except Exception as e:
        fr_ = core.rockit_frame(sys.exc_info()[2])
        if fr_ is None and not isinstance(e, (RuntimeError, AssertionError, AttributeError)):
            raise
        vios.append(dict(sig="exception:spline_vec:%s" % (fr_ or type(e).__name__), tags=tags, detail="%s: %s" % (type(e).__name__, str(e)[:200])))
    return dict(violations=vios, evaluations=2, traces=1, transitions=2, outcome=explore.sha(case), nontrivial=True, sample=case)


def run_case(case):
    if case["kind"] == "spline":
        return run_spline(case)
    if case["kind"] == "spline_vec":
        return run_spline_vec(case)
    if case["kind"] == "vshape":
        return run_vshape(case)
    if case["kind"] == "dae_branch":
        return run_dae_branch(case)
    if case["kind"] == "dae_multi":
        return run_dae_multi(case)
    if case["kind"] == "product":
        out = _trans.run_trans(case, OWN, extra_check=x0_check)
        d = case["d"]
        for v in out["violations"]:
            v["tags"] = sorted(set(v["tags"] + ["target=%s" % t for t, f, _ in d["init"]] + ["form=%s" % f for t, f, _ in d["init"]]))
        return out
    base = HBASE
    if case.get("grid"):
        base = copy.deepcopy(HBASE); base["grid"] = case["grid"]
        if case.get("horizon"):
            base["horizon"] = case["horizon"]
    if case.get("base_method"):
        base = copy.deepcopy(base); base.update(case["base_method"])
    out = hist.run_history(base, case["ops"])
    tags = (["grid=%s" % case["grid"]] if case.get("grid") else []) + (["horizon=%s" % case["horizon"]] if case.get("horizon") else [])
    seen_tr = False
    for op in case["ops"]:
        if op[0] in ("query", "solve"): seen_tr = True
        else: tags.append(("post:" if seen_tr else "pre:") + op[0])
    vios = out["violations"]
    # the final starting point also has to equal the reference evaluator of the final specification
    if out.get("final") is not None and not vios and case.get("horizon") != "Tvar":
        try:
            r = hist.declare_spec(copy.deepcopy(out["final"]))
            nlp = NL.Nlp(r.ocp, core.readbacks(r))
            v2, _ = check_x0(out["final"], nlp, [])
            vios += v2
        except Exception as e:
            vios.append(dict(sig="exception:fresh-final", detail=str(e)[:200]))
    for v in vios:
        v["tags"] = sorted(set(tags))
    return dict(violations=vios, evaluations=3, traces=1, transitions=len(case["ops"]) + 1,
                outcome=explore.sha([out.get("obs"), [v["sig"] for v in vios]]), nontrivial=True, sample=dict(ops=case["ops"]))


def describe(tier):
    return dict(
        rule="(g) SplineMethod with one vector state whose components are in chains of different lengths: a vector guess gives every component its own values; (f) DAE with a two-branch algebraic equation under MS/SS with the collocation / idas integrators and under DC: every history of length <=3 over {solve, query, guess of u, edit, guess of z on either branch}: next solve = fresh OCP with the final guesses; (e) global variables of shape 1xN, 1x(N+1), 2xN, Nx1 x {constant, matrix} guess x method x {before, after}: start value = guess entry by entry; (d) DAE with 2-3 algebraic variables of widths from {1,2,3} under DirectCollocation x target x {constant, time expression} x {before, after a first transcription}: the guess is the start value of exactly that variable at every collocation time, the others start at 0; (c) SplineMethod: chain length x N x grid x {constant, affine-in-time} guess of the chain head x {fixed, free horizon with a guess of T before/after}: head and derived members start on the guess (spline coefficients at Greville points reproduce affine functions exactly); (a) deviation-bounded enumeration over target (state, control, global / per-interval / control+ variable, algebraic, T, t0) x guess form (scalar, vector, n x N, n x (N+1), 1-D numpy, DM row, time expression) x second call (same target again, guess of T before/after, control expression) x method/N/M/degree/grid/horizon/scale plus the full target x form x method x grid table: the public read-back of opti's starting point equals an independent guess evaluator (entries the statement leaves open are excluded and counted); rows/objective unchanged; (b) every history of length <= d over 12 ops (guesses incl. dependent ones and two different time expressions for the same state, query, solve, edit, method), and over 6 ops (two guesses of T, time-expression guesses, query, solve) on 4 grids with their own time variables (localized t0 / T, free): next solve = fresh OCP and = the evaluator",
        bound="k<=%d deviations + table; history depth %d" % ((3, 4) if tier == "thorough" else (2, 3)),
        assumptions=["CasADi Opti.initial() is the solver's starting point", "array guesses do not pin helper states / final-node entries beyond their columns (excluded, counted)", "time-expression guesses on FreeGrid are not pinned (no declared partition)"])

"""C14  Scaling arguments never change the meaning of the problem."""
import numpy as np
from .. import program as P, explore, core, nlp as NL
from . import _trans

ID = "C14"
OWN = ("dyn", "path", "point", "obj", "time", "extra", "states", "readback", "scale", "x0")

DIMS = dict(
    sx=[1, 3, "elem"],
    su=[1, 0.25],
    svg=[1, 3],
    svc=[1, 0.25],
    sz=[1, 3],
    sder=[1, 3, "elem"],
    salg=[1, 0.25],
    scon=[1, 3, 0.25],
    method=["MS", "SS", "DC"],
    degree=[2, 1, 3],
    grid=["uniform", "geom", "free"],
    N=[2, 3],
    M=[1, 2],
    alg=[False, True],
    horizon=["fixed", "Tfree"],
    state=["vec2", "mat22"],
    second=[False, True],          # a second state whose set_der (with its own scale) is called BEFORE the first one's
    vc=["control", "control+"],    # per-interval variable without / with an entry of its own at the final node
    redeclare=[False, True],       # the model is declared twice: a draft with derivative scale 7, then the final one
)


def finish(a):
    a = dict(a)
    sc = {}
    sx, su, svg, svc, sz, sder, salg, scon = [a.pop(k) for k in ("sx", "su", "svg", "svc", "sz", "sder", "salg", "scon")]
    if a["alg"]:
        a["method"] = "DC"
    mat = a["state"] == "mat22"
    if sx != 1: sc["x"] = ([2.0, 0.5, 3.0, 4.0] if mat else [2.0, 0.5]) if sx == "elem" else sx
    if su != 1: sc["u"] = su
    if svg != 1: sc["vg"] = svg
    if svc != 1: sc["vc"] = svc
    if sz != 1 and a["alg"]: sc["z"] = sz
    if sder != 1: sc["der_x"] = ([0.5, 4.0, 2.0, 0.25] if mat else [0.5, 4.0]) if sder == "elem" else sder
    if salg != 1 and a["alg"]: sc["alg"] = salg
    if a["second"]:
        a["der_order"] = "reverse"
        if sder != 1: sc["der_y"] = 5.0
    red = a.pop("redeclare")
    d = P.case(vg=True, **a)
    if red: d["redeclare"] = True
    d["scales"] = sc
    d["cons"] = [P.con("bc0", scale=scon), P.con("bcf", scale=scon), P.con("bc_mixed", scale=scon), P.con("x_le", scale=scon), P.con("xu_between", scale=scon), P.con("x_vec_ge", scale=scon), P.con("x_vec_mixed", scale=scon), P.con("x_vec_mixed_lb", scale=scon), P.con("x_le_xv", scale=scon), P.con("vc_ge")]
    # scaled constraints on the finer grids (every call site that forwards scale=)
    d["cons"].append(P.con("x_le", grid="integrator", scale=scon))
    if a["method"] == "DC":
        d["cons"].append(P.con("xu_between", grid="integrator_roots", scale=scon))
    d["obj"] = ["mayer_tf", "integral", "vg", "integral_vc"] + (["int_z"] if a["alg"] else [])
    d["init"] = [["x", "const", 0.8] if mat else ["x", "vec", [0.8, 0.8]], ["u", "const", -0.3], ["vg", "const", 0.6], ["vc", "const", 0.45]] + ([["z", "const", 0.7]] if a["alg"] else [])
    return d


def cases(tier):
    k = 4 if tier == "thorough" else 3
    out = []; seen = set()
    for a, dev in explore.deviations(DIMS, k):
        if tier != "thorough" and len(dev) == 3 and sum(1 for n in dev if n.startswith("s")) < 2:
            continue
        d = finish(a)
        h = explore.sha(d)
        if h in seen: continue
        seen.add(h)
        out.append(dict(d=d, dev=dev))
    # every scale slot (and all slots together) x every method x M x DAE: the sub-product the deviation bound would only reach at k=4
    slots = [("svc+", 0.25), ("redeclare", 1), ("redeclare", 3), ("sx", 3), ("sx", "elem"), ("mat", "sx"), ("mat", "sder"), ("mat", "both"), ("second", "sder"), ("su", 0.25), ("svg", 3), ("svc", 0.25), ("sz", 3), ("sder", 3), ("sder", "elem"), ("salg", 0.25), ("scon", 3), ("scon", 0.25)]
    for meth in DIMS["method"]:
        for M in (1, 2):
            for al in (False, True):
                for sl in slots + ["all"]:
                    a = {n: DIMS[n][0] for n in DIMS}
                    a.update(method=meth, M=M, alg=al, N=3 if M == 2 else 2)
                    if sl == "all":
                        a.update(sx="elem", su=0.25, svg=3, svc=0.25, sz=3, sder="elem", salg=0.25, scon=3)
                    elif sl[0] == "second":
                        a.update(second=True, sder=3)
                    elif sl[0] == "svc+":
                        a.update(vc="control+", svc=sl[1])
                    elif sl[0] == "redeclare":
                        a.update(redeclare=True, sder=sl[1])
                    elif sl[0] == "mat":
                        # matrix-valued state with element-wise scales (column-major element order)
                        a.update(state="mat22")
                        if sl[1] in ("sx", "both"): a.update(sx="elem")
                        if sl[1] in ("sder", "both"): a.update(sder="elem")
                    else:
                        a[sl[0]] = sl[1]
                    d = finish(a)
                    h = explore.sha(d)
                    if h in seen: continue
                    seen.add(h)
                    out.append(dict(d=d, dev=["method", "M", "alg", str(sl)]))
    return out + chain_cases()


def chain_cases():
    out = []
    for what in ("control", "variable", "variable_control"):
        for sc in (0.25, 4.0):
            for meth in ("MS", "SS", "DC"):
                out.append(dict(kind="domain_scale", what=what, scale=sc, method=meth))
    for order in (1, 2, 3):
        for sc in (0.25, 3.0):
            for meth in ("MS", "SS", "DC"):
                out.append(dict(kind="chain_scale", order=order, scale=sc, method=meth, N=2, M=2 if meth != "DC" else 1))
    return out


def run_chain_scale(case):
    """control(order=k, scale=s): every member of the chain (the k states and the piecewise-constant top derivative) is
    scale times its own solver variable"""
    import rockit, casadi as ca, sys
    k, sc, meth, N, M = case["order"], case["scale"], case["method"], case["N"], case["M"]
    tags = ["order=%d" % k, "scale=%g" % sc, "method=%s" % meth, "higher_order_control"]
    vios = []
    try:
        ocp = rockit.Ocp(t0=0.2, T=1.4)
        x = ocp.state(); c = ocp.control(order=k, scale=sc)
        ocp.set_der(x, -0.5 * x + c)
        ocp.subject_to(ocp.at_t0(x) == 0.3)
        chain = [c]
        for j in range(k):
            chain.append(ocp.der(chain[-1]))
        ocp.add_objective(ocp.integral(x * x + 0.1 * chain[-1] ** 2))
        ocp.solver("ipopt", {"ipopt.print_level": 0, "print_time": False, "ipopt.sb": "yes"})
        ocp.method({"SS": rockit.SingleShooting(N=N, M=M), "MS": rockit.MultipleShooting(N=N, M=M), "DC": rockit.DirectCollocation(N=N, M=M, degree=max(k, 2))}[meth])
        nlp = NL.Nlp(ocp)
        w = NL.generic(nlp.nx, 0, 0, lo=-0.6, hi=0.9)
        for j, m_ in enumerate(chain):
            # states: their value at t0 is a decision variable in every method; the top derivative: every interval
            e = ocp.sample(m_, grid="control-")[1] if j == k else ocp.at_t0(m_)
            e = ca.vec(ca.MX(ocp.value(e) if j < k else e))
            J = np.array(ca.Function("J", [nlp.x, nlp.p], [ca.jacobian(e, nlp.x)])(w, nlp.p0))
            for r in range(J.shape[0]):
                nz = J[r][np.abs(J[r]) > 1e-12]
                if len(nz) != 1 or abs(nz[0] - sc) > 1e-9 * max(1, sc):
                    vios.append(dict(sig="value:scale:variable", tags=tags, detail="member %d of an order-%d control with scale %g: d(physical)/d(solver variables) = %s, expected one entry equal to the scale" % (j, k, sc, np.round(nz, 6).tolist())))
                    break
            if vios: break
    except Exception as e_:
        fr = core.rockit_frame(sys.exc_info()[2])
        if fr is None and not isinstance(e_, (RuntimeError, AssertionError)):
            raise
        vios.append(dict(sig="exception:chain_scale:%s" % (fr or type(e_).__name__), tags=tags, detail="%s: %s" % (type(e_).__name__, str(e_)[:200])))
    return dict(violations=vios, evaluations=k + 1, traces=1, transitions=1, outcome=explore.sha(case), nontrivial=True, sample=case)


def run_domain_scale(case):
    """a scaled quantity declared with domain='integer' is still scale times its own solver variable"""
    import rockit, casadi as ca, sys
    what, sc, meth = case["what"], case["scale"], case["method"]
    tags = ["domain=integer", "what=%s" % what, "scale=%g" % sc, "method=%s" % meth]
    vios = []
    try:
        ocp = rockit.Ocp(t0=0.2, T=1.4)
        x = ocp.state()
        if what == "control":
            q = ocp.control(scale=sc, domain="integer"); ocp.set_der(x, -0.5 * x + q)
        else:
            u = ocp.control(); ocp.set_der(x, -0.5 * x + u)
            if what == "variable":
                q = ocp.variable(scale=sc, domain="integer")
            else:
                q = ocp.variable(grid="control", scale=sc, domain="integer")
            ocp.subject_to(x <= 5 + q)
        ocp.subject_to(ocp.at_t0(x) == 0.3)
        ocp.add_objective(ocp.integral(x * x) + ocp.at_tf(x) ** 2)
        ocp.solver("ipopt", {"ipopt.print_level": 0, "print_time": False, "ipopt.sb": "yes"})
        ocp.method({"SS": rockit.SingleShooting(N=2), "MS": rockit.MultipleShooting(N=2), "DC": rockit.DirectCollocation(N=2, degree=2)}[meth])
        nlp = NL.Nlp(ocp)
        e = ocp.value(q) if what == "variable" else ocp.sample(q, grid="control-")[1]
        w = NL.generic(nlp.nx, 0, 0, lo=-0.6, hi=0.9)
        J = np.array(ca.Function("J", [nlp.x, nlp.p], [ca.jacobian(ca.vec(ca.MX(e)), nlp.x)])(w, nlp.p0))
        for r in range(J.shape[0]):
            nz = J[r][np.abs(J[r]) > 1e-12]
            if len(nz) != 1 or abs(nz[0] - sc) > 1e-9 * max(1, sc):
                vios.append(dict(sig="value:scale:variable", tags=tags, detail="integer-domain %s with scale %g: d(physical)/d(solver variables) = %s, expected one entry equal to the scale" % (what, sc, np.round(nz, 6).tolist())))
                break
    except Exception as e_:
        fr = core.rockit_frame(sys.exc_info()[2])
        if fr is None and not isinstance(e_, (RuntimeError, AssertionError)):
            raise
        vios.append(dict(sig="exception:domain_scale:%s" % (fr or type(e_).__name__), tags=tags, detail="%s: %s" % (type(e_).__name__, str(e_)[:200])))
    return dict(violations=vios, evaluations=1, traces=1, transitions=1, outcome=explore.sha(case), nontrivial=True, sample=case)


def scale_of(d, key, n):
    v = d["scales"].get(key, 1)
    if isinstance(v, (list, tuple)):
        return np.array(v, dtype=float).reshape(-1)
    return np.full(n, float(v))


def semantics(case, res, tags):
    d = case["d"]
    nlp = res.nlp
    vios = []
    ex = np.zeros(nlp.n_extra)
    w0 = res.pts[0]
    q0 = nlp.read(w0, extra=ex)
    # (b) solver variables are the physical ones divided by their scale: every decision coordinate moves
    # the labelled physical entries it owns by exactly the declared scale
    nx_ = P.nx_of(d)
    nxx = [r_ * c_ for n_, (r_, c_) in P.state_shapes(d) if n_ == "x"][0]
    sx_all = np.concatenate([scale_of(d, "x", nxx), np.ones(nx_ - nxx)])      # (a second state is declared without a scale)
    exp = {"X": sx_all, "Xi": sx_all, "Xr": sx_all, "U": scale_of(d, "u", 1),
           "vg": scale_of(d, "vg", 1), "vc": scale_of(d, "vc", 1), "Zr": scale_of(d, "z", 1)}
    owned = set()
    for i in range(nlp.nx):
        w = w0.copy(); w[i] += 1.0
        q = nlp.read(w, extra=ex)
        direct = []
        for key, sc in exp.items():
            if key not in q0: continue
            if d["method"] == "SS" and key in ("X", "Xi"):
                dq = (q[key] - q0[key]).reshape(len(sc), -1, order="F")[:, :1]
            elif d["method"] == "MS" and key == "Xi":
                continue
            else:
                dq = (q[key] - q0[key]).reshape(len(sc), -1, order="F")
            for r in range(dq.shape[0]):
                for c in range(dq.shape[1]):
                    if abs(dq[r, c]) > 1e-12:
                        direct.append((key, r, c, dq[r, c], sc[r]))
        # a decision coordinate that is itself a labelled quantity shows exactly its scale
        prim = [e for e in direct if e[0] in ("X", "U", "vg", "vc", "Zr", "Xr") or (e[0] == "Xi" and d["method"] == "DC")]
        if d["method"] == "SS":
            prim = [e for e in prim if e[0] != "X" or e[2] == 0]
        if len(prim) >= 1:
            key, r, c, got, want = prim[0]
            same = [e for e in prim if abs(e[3] - want) < 1e-9 * max(1, abs(want))]
            if not same or (d["method"] != "SS" and any(abs(e[3] - e[4]) > 1e-9 * max(1, abs(e[4])) for e in prim if e[0] in ("U", "vg", "vc", "Zr"))):
                vios.append(dict(sig="value:scale:variable", tags=tags, detail="coordinate %d moves %s[%d,%d] by %g, declared scale %g" % (i, key, r, c, got, want)))
                break
    # (c) starting point in physical units equals the guesses
    qi = nlp.read(nlp.x0, extra=nlp.extra0)
    want = {"x": 0.8, "u": -0.3, "vg": 0.6, "vc": 0.45}
    chk = [("U", want["u"]), ("vg", want["vg"]), ("vc", want["vc"])]
    if d["method"] != "SS":
        chk.append(("X", want["x"]))
    if d["alg"]:
        chk.append(("Zr", 0.7))      # the guess of the (scaled) algebraic variable, at the collocation roots
    for key, val in chk:
        if key == "X" and key in qi and nx_ != nxx:
            got_ = np.asarray(qi[key], dtype=float).reshape(nx_, -1, order="F")[:nxx]
            if not NL.close(got_, np.full(got_.shape, val), 1e-9):
                vios.append(dict(sig="value:x0:%s" % key, tags=tags, detail="starting %s = %s, guess %g (physical units)" % (key, got_.reshape(-1)[:4], val)))
            continue
        if key in qi and not NL.close(qi[key], np.full(qi[key].shape, val), 1e-9):
            vios.append(dict(sig="value:x0:%s" % key, tags=tags, detail="starting %s = %s, guess %g (physical units)" % (key, qi[key].reshape(-1)[:4], val)))
    return vios


def run_case(case):
    if case.get("kind") == "chain_scale":
        return run_chain_scale(case)
    if case.get("kind") == "domain_scale":
        return run_domain_scale(case)
    return _trans.run_trans(case, OWN, extra_check=semantics)


def describe(tier):
    return dict(
        rule="(integer-domain controls / variables with a scale: scale times their own solver variable) (controls of order 1..3 with a scale x method: every chain member is scale times its own solver variable) (matrix-valued state with element-wise state / derivative scales; scaled constraints on the integrator and collocation-point grids) deviation-bounded enumeration over 8 scale slots (state scalar/element-wise, control, global and per-interval variable, algebraic, set_der, add_alg, constraint) x method/degree/grid/N/M/DAE/horizon; objective equal to the unscaled reference, user-constraint rows and bounds equal reference/scale, dynamics rows equal up to one positive constant per row, every decision coordinate moves its physical read-back by exactly the declared scale, starting point equals the guesses in physical units",
        bound="k<=%d deviations" % (4 if tier == "thorough" else 3),
        assumptions=["CasADi Function evaluation and Opti bookkeeping are trusted", "generic-point alphabet", "gap / continuity / algebraic rows may carry any positive per-row constant; collocation residuals must carry exactly 1/scale_der"])

"""C13  The transcription depends only on the final specification, not on its history."""
import itertools
from .. import program as P, explore, hist

ID = "C13"
CHUNK = 8

BASE = P.case(state="vec2", pg="scalar", cons=[P.con("bc0")], obj=["mayer_tf", "integral"], method="MS", N=2)

ALPHABET = [
    ["subject_to", P.con("x_le")],
    ["subject_to", P.con("u_between")],
    ["subject_to", P.con("x_le", grid="integrator_roots")],
    ["subject_to", P.con("xt_le", grid="integrator", include_first=False)],
    ["clear_constraints"],
    ["add_objective", "sum"],
    ["method", "MS2"],
    ["method", "DC2"],
    ["method", "SS3"],
    ["solver", "A"],
    ["solver", "B"],
    ["set_T", 3.0],
    ["set_t0", 0.2],
    ["set_der", "lin_t"],
    ["set_value", "pg", "a"],
    ["set_value", "pg", "b"],
    ["set_initial", "x", "vec", [0.8, 0.5]],
    ["query", "sample"],
    ["solve"],
    ["sol_query"],
]
INVALIDATING = ("subject_to", "clear_constraints", "add_objective", "method", "set_der")

# second base: free horizon, guesses that depend on other guesses (time expressions, guess of T)
BASE2 = P.case(state="scalar", horizon="Tfree", cons=[P.con("bc0")], obj=["mayer_tf", "integral", "T"], method="MS", N=2)
ALPHABET2 = [
    ["set_initial", "x", "expr", "lin"],
    ["set_initial", "x", "expr", "sin"],
    ["set_initial", "x", "const", 0.4],
    ["set_initial", "T", "const", 3.1],
    ["set_initial", "T", "const", 0.8],
    ["set_initial", "u", "expr", "sin"],
    ["subject_to", P.con("x_le")],
    ["set_der", "lin"],
    ["method", "MS3g"],
    ["method", "DC2"],
    ["query", "sample"],
    ["solve"],
]


def cases(tier):
    depth = 4 if tier == "thorough" else 3
    out = []
    for h in explore.histories(list(range(len(ALPHABET))), depth):
        out.append(dict(ops=[ALPHABET[i] for i in h], idx=list(h)))
    for h in explore.histories(list(range(len(ALPHABET2))), depth):
        if h:
            out.append(dict(ops=[ALPHABET2[i] for i in h], idx=list(h), base=2))
    if tier == "thorough":
        # depth 5 restricted to histories with at most one invalidating edit and at least one transcribing op
        for h in itertools.product(range(len(ALPHABET)), repeat=5):
            kinds = [ALPHABET[i][0] for i in h]
            if sum(1 for k in kinds if k in INVALIDATING) <= 1 and sum(1 for k in kinds if k in ("query", "solve")) in (1, 2) and len(set(h)) == 5:
                out.append(dict(ops=[ALPHABET[i] for i in h], idx=list(h)))
    return out


def op_tags(ops):
    tags = []
    seen_tr = False
    for op in ops:
        k = op[0]
        if k in ("query", "solve"):
            seen_tr = True
            continue
        tags.append(("post:" if seen_tr else "pre:") + k)
    if seen_tr:
        tags.append("transcribed_midway")
    return sorted(set(tags))


def run_case(case):
    out = hist.run_history(BASE2 if case.get("base") == 2 else BASE, case["ops"])
    tags = op_tags(case["ops"])
    for v in out["violations"]:
        v["tags"] = tags
    final = out.get("final") or {}
    oc = explore.sha([out.get("obs"), [v["sig"] for v in out["violations"]]])
    return dict(violations=out["violations"], evaluations=3, traces=1, transitions=len(case["ops"]) + 1,
                outcome=oc, nontrivial=len(case["ops"]) > 0,
                counts=dict(rejected_ops=out.get("rejected", 0)),
                sample=dict(ops=case["ops"]))


def describe(tier):
    return dict(
        rule="(base 2: free horizon, 12-operation alphabet with time-expression guesses, guesses of T, methods with other grids, query, solve) and every operation sequence of length <= d over a 20-operation alphabet (4 subject_to incl. the integrator and collocation-point grids, clear_constraints, add_objective, 3 methods, 2 solver option sets, set_T, set_t0, set_der with another right-hand side, 2 set_value, set_initial, query, solve, reading the latest solution object again) applied to a live Ocp (no implementation-side state merging), followed by the observation `solve` under a solver spy; oracle: the NLP (canonical rows, objective, start point, parameter vector) and solver settings seen by the solver equal those of a fresh Ocp declared from the final specification; a second solve sees the same; public declared state unchanged by queries/solves; distinct = digest of the observation",
        bound="depth %d%s" % ((4, " + restricted depth 5") if tier == "thorough" else (3, "")),
        assumptions=["solver spy at casadi.Opti.solve/solve_limited/solver is 'what the solver receives'", "observation with ipopt max_iter=0 (returns the start point)", "rows compared at 2 generic points and the start point"])

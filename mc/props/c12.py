"""C12  Stages compose without interference and clones equal their template."""
import itertools, copy
import numpy as np
from .. import program as P, explore, multi, hist, core, nlp as NL
from ..common import seed as get_seed
from . import _trans

ID = "C12"
CHUNK = 2


def stage_kind(name, t0, T=None):
    """stage alphabet: different models, methods, grids, N, free/fixed times, quadrature, explicit time"""
    if name == "A":   # MS, autonomous rhs, path constraint, integral objective
        d = P.case(method="MS", N=2, M=1, rhs="nl", cons=[P.con("x_le")], obj=["integral"], T0=t0, TT=T or 1.3)
    elif name == "B":  # DC, explicit time in rhs and integrand and constraint
        d = P.case(method="DC", N=2, M=1, degree=2, rhs="nl_t", cons=[P.con("xt_le")], obj=["integral_t", "mayer_tf"], T0=t0, TT=T or 0.9)
    elif name == "C":  # SS on a geometric grid, sum objective, M=2
        d = P.case(method="SS", N=3, M=2, grid="geom", rhs="nl", cons=[P.con("u_between")], obj=["sum"], T0=t0, TT=T or 1.1)
    elif name == "D":  # free end time, objective on T, boundary constraint with T
        d = P.case(method="MS", N=2, M=2, rhs="nl", horizon="Tfree", cons=[P.con("bcT")], obj=["T", "integral"], T0=t0, TT=T or 1.9)
    elif name == "E":  # both times free (needed for time coupling), per-interval parameter
        d = P.case(method="MS", N=2, M=1, rhs="nl", horizon="bothfree", pc="control", cons=[P.con("pc_le")], obj=["T", "mayer_tf"], T0=t0, TT=T or 1.5)
    elif name == "F":  # explicit time only in the integrand / constraints (not in the rhs)
        d = P.case(method="MS", N=2, M=1, rhs="nl", cons=[P.con("t_eq", include_first=False, include_last=False)], obj=["integral_t"], T0=t0, TT=T or 1.2)
    elif name == "G":  # global parameter in the rhs (clones get their own value after cloning)
        d = P.case(method="MS", N=2, M=1, rhs="nl", pg="scalar", cons=[P.con("pg_le")], obj=["integral", "pg"], T0=t0, TT=T or 1.0)
    elif name == "H":  # DAE under DirectCollocation (algebraic equation, constraint and integrand with z)
        d = P.case(method="DC", N=2, M=1, degree=2, rhs="nl", alg=True, cons=[P.con("z_le")], obj=["integral", "int_z"], T0=t0, TT=T or 1.15)
    elif name == "I":  # horizon given by a parameter of the stage (every clone sets its own value)
        d = P.case(method="MS", N=2, M=1, rhs="nl_t", horizon="Tparam", cons=[P.con("x_le")], obj=["integral_t", "mayer_tf"], T0=t0, TT=T or 1.25)
    elif name == "J":  # constraints on three different grids (path, boundary point, integrator grid)
        d = P.case(method="MS", N=2, M=2, rhs="nl", cons=[P.con("x_le"), P.con("bcf"), P.con("xt_le", grid="integrator", include_first=False)], obj=["integral"], T0=t0, TT=T or 1.05)
    elif name == "K":  # the horizon (not time) inside a boundary evaluation: clones use their own T
        d = P.case(method="MS", N=2, M=1, rhs="nl", cons=[P.con("x_le")], obj=["mayer_Tonly", "integral"], T0=t0, TT=T or 1.35)
    elif name == "L":  # discrete-time model (set_next): a clone has to carry the update rule over to its own symbols
        d = P.case(method="MS", N=3, M=1, intg="set_next", rhs="nl", cons=[P.con("x_le")], obj=["sum", "mayer_tf"], T0=t0, TT=T or 1.2)
    else:
        raise KeyError(name)
    return d


KINDS = ["A", "B", "C", "D", "E", "F", "G", "H", "I", "J", "K"]


def build(names, coupling, via, start=0.3):
    """names: stage kinds; via: per-stage 'direct' | 'clone' (from a template of the same kind) | 'clone_edit'
    (clone, then one more constraint on that clone) | 'clone_der' (clone, then set_der again with another scale)"""
    stages = []
    t = start
    der = "clone_der" in via
    for i, nm in enumerate(names):
        d = stage_kind(nm, round(t, 3))
        sd = dict(d=d, via=via[i])
        if nm == "G":
            d["pvals"] = {"pg": [0.45, -0.8, 1.3][i % 3]}
        if nm == "I":
            d["TT"] = [1.25, 0.8, 1.6][i % 3]
            d["pvals"] = {"TT": d["TT"]}
        t += d["TT"]
        if via[i] != "direct":
            sd["tmpl"] = nm
            # the template is declared with its own (different) default horizon; clones override t0/T
            sd["tmpl_d"] = stage_kind(nm, 0.7, 1.0)
            if sd["tmpl_d"]["horizon"] not in ("fixed", "Tparam"):
                sd["tmpl_d"] = dict(sd["tmpl_d"]); sd["tmpl_d"]["horizon"] = "fixed"
            if der:
                # the template declares a derivative scale; one clone re-declares its dynamics with another one
                sd["tmpl_d"]["scales"] = {"der_x": 3.0}
                d["scales"] = {"der_x": 7.0 if via[i] == "clone_der" else 3.0}
                if via[i] == "clone_der":
                    sd["der_scale"] = 7.0
        if via[i] == "clone_edit":
            sd["extra_cons"] = [P.con("xu_between")]
        stages.append(sd)
    return dict(stages=stages, coupling=coupling, names=list(names), via=list(via))


def couplings(names):
    out = [[]]
    n = len(names)
    if n >= 2:
        out.append([["continuity", 0]])
        if n == 3:
            out.append([["continuity", 0], ["continuity", 1]])
        for i in range(n - 1):
            if names[i + 1] == "E":
                out.append([["time", i], ["continuity", i]])
    out.append([["master_var"]])
    out.append([["master_var_par"]])
    out.append([["master_obj", n - 1]])
    if n >= 2:
        out.append([["continuity", 0], ["master_var"], ["master_obj", 0]])
    return out


def cases(tier):
    out = []
    maxlen = 3
    for n in range(1, maxlen + 1):
        for names in itertools.product(KINDS, repeat=n):
            if tier != "thorough" and n == 3 and len(set(names)) < 2 and names[0] not in ("A", "B"):
                continue
            if tier != "thorough" and n == 3 and not (names[0] in ("A", "B", "D") and names[2] in ("A", "B", "E", "F", "G")):
                continue
            for cp in couplings(names):
                out.append(dict(spec=build(names, cp, ["direct"] * n), dev=list(names)))
            # clone patterns: every stage cloned; first cloned; clones of one template (siblings); clone then edit
            if n <= 2 or tier == "thorough" or len(set(names)) == 1:
                out.append(dict(spec=build(names, couplings(names)[1 if n >= 2 else 0], ["clone"] * n), dev=list(names) + ["clone"]))
                out.append(dict(spec=build(names, [], ["clone"] + ["direct"] * (n - 1)), dev=list(names) + ["clone0"]))
                out.append(dict(spec=build(names, [], ["clone_edit"] + ["clone"] * (n - 1)), dev=list(names) + ["clone_edit"]))
            if n <= 2:
                # a clone that overrides the template's non-zero start time with 0
                out.append(dict(spec=build(names, couplings(names)[1 if n >= 2 else 0], ["clone"] * n, start=0.0), dev=list(names) + ["clone", "t0=0"]))
                # a derivative scale re-declared on one clone only (siblings and template keep theirs)
                out.append(dict(spec=build(names, [], ["clone_der"] + ["clone"] * (n - 1)), dev=list(names) + ["clone_der"]))
                if n == 2:
                    out.append(dict(spec=build(names, [], ["clone", "clone_der"]), dev=list(names) + ["clone_der1"]))
                # guesses (constant and time-dependent) declared on the template: every clone starts from them, on its own horizon
                if all(nm_ in ("A", "B", "F", "G") for nm_ in names):
                    sp = build(names, [], ["clone"] * n)
                    for sd_ in sp["stages"]:
                        ini = [["x", "expr", "lin"], ["u", "const", -0.3]]
                        sd_["d"]["init"] = ini; sd_["tmpl_d"]["init"] = ini
                    out.append(dict(spec=sp, dev=list(names) + ["clone", "template_guess"]))
    # a discrete-time stage (not in the stage alphabet of the lists above): alone, next to a continuous-time stage, twice
    for names in (("L",), ("L", "A"), ("L", "L")):
        for via in ("direct", "clone"):
            n_ = len(names)
            out.append(dict(spec=build(names, couplings(names)[1 if n_ >= 2 else 0], [via] * n_), dev=list(names) + [via, "discrete"]))
    # clones made WITHOUT t0= / T=: they keep the template's horizon declaration (fixed, free end time, both times free)
    # and the template's guesses of T / t0 / a time-dependent state guess
    for nm in ("A", "B", "D", "E"):
        for with_guess in (False, True):
            sp = build((nm,), [], ["clone"])
            sd_ = sp["stages"][0]
            sd_["keep_horizon"] = True; sd_["tmpl"] = nm + "_keep%d" % with_guess
            sd_["tmpl_d"] = copy.deepcopy(sd_["d"])
            if with_guess:
                ini = [["x", "expr", "lin"]] + ([["T", "const", 2.45]] if nm in ("D", "E") else []) + ([["t0", "const", -0.5]] if nm == "E" else [])
                sd_["d"]["init"] = ini; sd_["tmpl_d"]["init"] = ini
            out.append(dict(spec=sp, dev=[nm, "clone_keep_horizon"] + (["template_guess"] if with_guess else [])))
    # one method INSTANCE handed to every stage (documented as "will not be modified"): same NLP as with fresh instances
    for nm in ("A", "B", "C", "D", "E"):
        for n in (2, 3):
            for cp in ([], [["continuity", 0]], [["master_var"]]):
                sp = build((nm,) * n, cp, ["direct"] * n)
                sp["share_method"] = True
                out.append(dict(spec=sp, dev=[nm] * n + ["share_method"]))
    # histories across stages
    for names in itertools.product(["A", "B", "G", "D"], repeat=2):
        for via in (["direct", "direct"], ["clone", "clone"]):
            for which in (0, 1):
                for edit in ("subject_to", "set_T", "add_objective", "clear_constraints", "method", "set_initial", "set_initial_T"):
                    out.append(dict(kind="hist", pattern="substage_edit_after_solve", which=which, edit=edit, spec=build(names, [["continuity", 0]], via), dev=list(names) + via + [edit]))
    for names in itertools.product(["A", "B", "G", "D"], repeat=2):
        for which in (0, 1):
            for edit in ("set_initial", "set_initial_T", "subject_to"):
                out.append(dict(kind="hist", pattern="substage_edit_after_query", which=which, edit=edit, spec=build(names, [["continuity", 0]], ["direct", "direct"]), dev=list(names) + ["query", edit]))
    for names in itertools.product(["A", "B", "G", "D"], repeat=2):
        for via in (["direct", "direct"], ["clone", "clone"], ["direct", "clone"]):
            out.append(dict(kind="hist", pattern="add_stage_after_transcription", spec=build(names, [], via), dev=list(names) + via))
        if "G" in names:
            for via in (["direct", "direct"], ["clone", "clone"]):
                out.append(dict(kind="hist", pattern="set_value_then_edit", spec=build(names, [["continuity", 0]], via), dev=list(names) + via))
    from ..common import have_networkx
    if have_networkx():
        for n in (1, 2, 3):
            for meths in itertools.product(["Spline", "MS", "DC"], repeat=n):
                if "Spline" in meths:
                    out.append(dict(kind="mixed", methods=list(meths), dev=list(meths)))
    return out


def chain_stage(st, meth, first):
    """integrator chain p'=v, v'=u on stage st (representable by every method incl. SplineMethod)"""
    import rockit
    p = st.state(); v = st.state(); u = st.control()
    st.set_der(p, v); st.set_der(v, u)
    st.subject_to(-1 <= (u <= 1))
    st.subject_to(p <= 3)
    if first:
        st.subject_to(st.at_t0(p) == 0.1); st.subject_to(st.at_t0(v) == 0.2)
    st.add_objective(st.at_tf((p - 1) ** 2) + st.sum(u * u))
    st.method({"Spline": rockit.SplineMethod(N=3), "MS": rockit.MultipleShooting(N=3), "DC": rockit.DirectCollocation(N=2, degree=2)}[meth])
    return p, v, u


def run_mixed(case):
    """stages with SplineMethod next to sampling methods: the multi-stage NLP is the disjoint union of the
    stages' own NLPs (each declared alone on the real code, decision vectors concatenated) plus the coupling"""
    import rockit, sys
    from .. import nlp as NL, core
    meths = case["methods"]
    tags = ["mixed"] + ["m=%s" % m for m in meths]
    opts = {"ipopt.print_level": 0, "print_time": False, "ipopt.sb": "yes"}
    try:
        ocp = rockit.Ocp()
        sts = []
        for i, mth in enumerate(meths):
            st = ocp.stage(t0=0.5 * i, T=1.0 + 0.25 * i)
            sts.append((st,) + chain_stage(st, mth, i == 0))
        for i in range(len(meths) - 1):
            ocp.subject_to(sts[i][0].at_tf(sts[i][1]) == sts[i + 1][0].at_t0(sts[i + 1][1]))
        ocp.solver("ipopt", opts)
        big = NL.Nlp(ocp)
        alone = []
        for i, mth in enumerate(meths):
            o = rockit.Ocp(t0=0.5 * i, T=1.0 + 0.25 * i)
            chain_stage(o, mth, i == 0)
            o.solver("ipopt", opts)
            alone.append(NL.Nlp(o))
    except Exception as e:
        fr = core.rockit_frame(sys.exc_info()[2])
        if fr is None and not isinstance(e, (RuntimeError, AttributeError, AssertionError)):
            raise
        return dict(violations=[dict(sig="exception:%s" % (fr or type(e).__name__), tags=tags, detail="%s: %s" % (type(e).__name__, str(e)[:200]))],
                    evaluations=1, traces=1, transitions=len(meths), outcome="exc", nontrivial=True, sample=dict(methods=meths))
    vios = []
    n = sum(a.nx for a in alone)
    if n != big.nx:
        vios.append(dict(sig="value:mixed:nvars", tags=tags, detail="%d variables vs %d in the stages alone" % (big.nx, n)))
    else:
        pts = NL.alphabet(n, seed=0, full=False) + [NL.generic(n, 3, 0)]
        fb, rb = NL.canon_rows(big, pts)
        fs = np.zeros(len(pts)); refs = []
        o = 0
        for i, a in enumerate(alone):
            fa, ra = NL.canon_rows(a, [p[o:o + a.nx] for p in pts])
            fs += fa
            refs += [dict(kind=r["kind"], fp=r["fp"], origin="stage%d:%d" % (i, r["idx"])) for r in ra]
            o += a.nx
        if not NL.close(fb, fs, 1e-9):
            vios.append(dict(sig="value:mixed:obj", tags=tags, detail="objective %s vs sum of the stages' %s" % (fb[:2], fs[:2])))
        missing, extra = NL.match_rows(rb, refs)
        ncouple = len(meths) - 1
        if missing or len(extra) != ncouple:
            vios.append(dict(sig="value:mixed:rows", tags=tags, detail="%d stage rows missing, %d unexplained rows (expected %d coupling rows)" % (len(missing), len(extra), ncouple)))
    return dict(violations=vios, evaluations=3, traces=1 + len(meths), transitions=len(meths), outcome=explore.sha([meths, [v["sig"] for v in vios]]), nontrivial=True, sample=dict(methods=meths))


def run_hist(case):
    """histories across stages: a stage added (directly or from a template) after a first transcription; a sub-stage
    parameter updated after a solve followed by a parent-level edit.  Next solve = fresh multi-stage OCP."""
    import sys, copy
    from .. import core
    spec = case["spec"]; pat = case["pattern"]
    tags = ["hist=%s" % pat] + ["stage=%s" % n for n in spec["names"]] + ["via=%s" % v for v in set(spec["via"])]
    vios = []
    opts = hist.SOLVER_OPTS["A"]
    try:
        hist.SPY.install()
        final = copy.deepcopy(spec)
        if pat == "add_stage_after_transcription":
            m = multi.declare_multi(spec, upto=len(spec["stages"]) - 1, couple=False)
            m.ocp.solver("ipopt", opts)
            m.ocp.solve_limited()                      # first transcription and solve
            multi.add_stage(m, spec["stages"][-1])     # one more stage on the live object
            final["coupling"] = []
        elif pat == "set_value_then_edit":
            m = multi.declare_multi(spec, couple=False)
            m.ocp.solver("ipopt", opts)
            m.ocp.solve_limited()
            for rr, sd in zip(m.reals, final["stages"]):
                if rr.d["pg"] == "scalar":
                    rr.st.set_value(rr.sym["pg"], 1.7)
                    sd["d"].setdefault("pvals", {})["pg"] = 1.7
            multi.add_coupling(m, spec["coupling"])    # a parent-level edit forces a new transcription
        elif pat in ("substage_edit_after_solve", "substage_edit_after_query"):
            # an edit made on a SUB-stage of a solved multi-stage OCP (no parent-level call in between); or after a mere
            # query on that sub-stage (stage.sample before any solve)
            m = multi.declare_multi(spec)
            m.ocp.solver("ipopt", opts)
            if pat == "substage_edit_after_query":
                rq = m.reals[case["which"]]
                rq.st.sample(rq.sym["x"], grid="control")
            else:
                m.ocp.solve_limited()
            rr = m.reals[case["which"]]; sd = final["stages"][case["which"]]
            ed = case["edit"]
            tags = tags + ["edit=%s" % ed]
            if ed == "subject_to":
                c = P.con("xu_between")
                rr.st.subject_to(P.apply_rel(P.CONS[c["c"]](P.CA, rr.pt, rr.d)))
                if sd.get("via", "direct") == "direct":
                    sd["d"]["cons"] = sd["d"]["cons"] + [c]
                else:
                    sd["extra_cons"] = sd.get("extra_cons", []) + [c]
            elif ed == "set_T":
                if rr.d["horizon"] != "fixed":
                    return dict(violations=[], evaluations=1, traces=1, transitions=1, outcome="n/a", nontrivial=False, sample=dict(pattern=pat))
                rr.st.set_T(rr.d["TT"] + 0.4)
                sd["d"]["TT"] = rr.d["TT"] + 0.4
            elif ed == "add_objective":
                rr.st.add_objective(P.OBJS["sum"](P.CA, rr.pt, rr.d))
                if sd.get("via", "direct") == "direct":
                    sd["d"]["obj"] = sd["d"]["obj"] + ["sum"]
                else:
                    sd["extra_obj"] = ["sum"]
            elif ed == "clear_constraints":
                rr.st.clear_constraints()
                if sd.get("via", "direct") == "direct":
                    sd["d"]["cons"] = []
                else:
                    sd["clear_cons"] = True
            elif ed == "set_initial":
                # a guess given on the sub-stage after the solve
                ent = ["u", "const", 0.3]
                P.apply_init(rr.st, rr.sym, rr.d, ent)
                if sd.get("via", "direct") == "direct":
                    sd["d"]["init"] = list(sd["d"].get("init", [])) + [ent]
                else:
                    sd["extra_init"] = [ent]
            elif ed == "set_initial_T":
                if rr.d["horizon"] not in ("Tfree", "bothfree"):
                    return dict(violations=[], evaluations=1, traces=1, transitions=1, outcome="n/a", nontrivial=False, sample=dict(pattern=pat))
                ent = ["T", "const", 2.45]
                P.apply_init(rr.st, rr.sym, rr.d, ent)
                if sd.get("via", "direct") == "direct":
                    sd["d"]["init"] = list(sd["d"].get("init", [])) + [ent]
                else:
                    sd["extra_init"] = [ent]
            elif ed == "method":
                dd = dict(rr.d); dd.update(N=3, M=2)
                rr.st.method(P.make_method(dd))
                sd["d"].update(N=3, M=2)
                sd["own_method"] = True
        r = P.Real(); r.ocp = m.ocp
        obs = hist.observe(r)
        mf = multi.declare_multi(final)
        mf.ocp.solver("ipopt", opts)
        rf = P.Real(); rf.ocp = mf.ocp
        fresh = hist.observe(rf)
        if "error" in obs or "error" in fresh:
            vios.append(dict(sig="exception:observe", tags=tags, detail=str(obs.get("error") or fresh.get("error"))))
        else:
            df = hist.obs_equal(obs, fresh)
            if df:
                vios.append(dict(sig="stale:" + "+".join(df), tags=tags, detail="next solve differs from a fresh multi-stage OCP with the final specification in %s (%d vs %d variables)" % (df, obs["nx"], fresh["nx"])))
    except Exception as e:
        fr = core.rockit_frame(sys.exc_info()[2])
        if fr is None and not isinstance(e, (RuntimeError, AssertionError, AttributeError)):
            raise
        vios.append(dict(sig="exception:%s" % (fr or type(e).__name__), tags=tags, detail="%s: %s" % (type(e).__name__, str(e)[:200])))
    return dict(violations=vios, evaluations=3, traces=2, transitions=len(spec["stages"]) + 2, outcome=explore.sha([case["pattern"], spec["names"], spec["via"], [v["sig"] for v in vios]]), nontrivial=True,
                sample=dict(pattern=pat, names=spec["names"], via=spec["via"]))


def stage_readback(res, tags):
    """numeric read-back of a multi-stage solution: sol(stage).sample / .value of every stage = that stage's own labelled
    values at the solver's decision vector (no other stage's), one time stamp per entry (C07's clause for sol(stage))"""
    from rockit.direct_method import OptiSolWrapper
    from rockit.solution import OcpSolution
    from .c07 import FakeSol
    import casadi as ca
    nlp, m = res.nlp, res.m
    w = NL.alphabet(nlp.nx + nlp.n_extra, seed=get_seed(), full=True)[0]
    w, ex = w[:nlp.nx], w[nlp.nx:]
    if nlp.n_extra:
        return []          # inactive symbols: the solver-free solution object cannot place them
    q = nlp.read(w, extra=ex)
    vios = []
    try:
        sol = OcpSolution(OptiSolWrapper(nlp.opti, FakeSol(nlp, w)), m.ocp)
        for i, r in enumerate(m.reals):
            ss = sol(r.st)
            x = ca.vertcat(*[ca.vec(r.sym[name]) for name, _ in P.state_shapes(r.d)])
            for grid, kt, kx in (("control", "tc_time", "X"), ("integrator", "ti", "Xi")):
                ts, xs = ss.sample(x, grid=grid)
                want_t = np.asarray(q["s%d.%s" % (i, kt)], dtype=float).reshape(-1)
                want_x = np.asarray(q["s%d.%s" % (i, kx)], dtype=float)
                want_x = want_x.reshape(x.numel(), -1, order="F").T if want_x.ndim else want_x
                got_t = np.asarray(ts, dtype=float).reshape(-1)
                got_x = np.asarray(xs, dtype=float).reshape(len(got_t), -1)
                if got_t.shape != want_t.shape or not np.allclose(got_t, want_t, atol=1e-9) or got_x.shape != want_x.reshape(len(want_t), -1).shape or not np.allclose(got_x, want_x.reshape(len(want_t), -1), atol=1e-9):
                    vios.append(dict(sig="value:sol(stage).sample:%s" % grid, tags=tags + ["sol_of_stage"], detail="stage %d: sol(stage).sample(x, grid=%s) = %s at %s, the stage's own labelled values are %s at %s" % (i, grid, np.round(got_x.reshape(-1)[:6], 6), np.round(got_t[:4], 6), np.round(want_x.reshape(-1)[:6], 6), np.round(want_t[:4], 6))))
            for name, sym in (("T", r.st.T), ("t0", r.st.t0), ("tf", r.st.tf)):
                got = float(np.asarray(ss.value(sym), dtype=float).reshape(-1)[0])
                want = float(np.asarray(q["s%d.%s" % (i, name)], dtype=float).reshape(-1)[0])
                if abs(got - want) > 1e-9:
                    vios.append(dict(sig="value:sol(stage).value:%s" % name, tags=tags + ["sol_of_stage"], detail="stage %d: sol(stage).value(%s) = %g, labelled %g" % (i, name, got, want)))
    except Exception as e:
        import sys
        fr = core.rockit_frame(sys.exc_info()[2])
        vios.append(dict(sig="exception:sol(stage):%s" % (fr or type(e).__name__), tags=tags + ["sol_of_stage"], detail="%s: %s" % (type(e).__name__, str(e)[:200])))
    return vios


def run_case(case):
    if case.get("kind") == "hist":
        return run_hist(case)
    if case.get("kind") == "mixed":
        return run_mixed(case)
    spec = case["spec"]
    res = multi.compare_multi(spec)
    tags = ["stage=%s" % n for n in spec["names"]] + ["via=%s" % v for v in set(spec["via"])] + ["coupling=%s" % c[0] for c in spec["coupling"]]
    for sd in spec["stages"]:
        d = sd["d"]
        if sd.get("via", "direct") != "direct":
            if d["rhs"] in ("nl_t", "lin_t"): tags.append("clone_time_in_rhs")
            if any(o in ("integral_t",) for o in d["obj"]): tags.append("clone_time_in_integrand")
            if any(c["c"] in ("t_eq", "xt_le") for c in d["cons"]): tags.append("clone_time_in_constraint")
    tags = sorted(set(tags))
    vios = []
    if res.exception is None and any(sd["d"].get("init") for sd in spec["stages"]):
        # starting point of every stage = its guesses evaluated on its own horizon (C10's evaluator, per stage)
        from . import c10
        tags.append("template_guess")

        class _StageView:
            def __init__(self, nlp, i):
                self.nlp, self.pre = nlp, "s%d." % i
                self.x0, self.extra0 = nlp.x0, nlp.extra0

            def read(self, w, extra=None):
                q = self.nlp.read(w, extra=extra)
                return {k[len(self.pre):]: v for k, v in q.items() if k.startswith(self.pre)}
        for i, sd in enumerate(spec["stages"]):
            v2, _ = c10.check_x0(sd["d"], _StageView(res.nlp, i), tags)
            vios += v2
    if res.exception is not None:
        vios.append(dict(sig="exception:%s" % (res.exception["frame"] or res.exception["type"]), tags=tags, detail="%s: %s" % (res.exception["type"], res.exception["msg"])))
    else:
        vios += stage_readback(res, tags)
        grouped = {}
        for m in res.mismatches:
            base = ":".join(m["origin"].split(":")[:3]) if m["origin"].startswith("s") else ":".join(m["origin"].split(":")[:2])
            base = base.split(":")
            # drop stage index from the signature (kept in detail)
            key = ":".join(b for b in base if not (b.startswith("s") and b[1:].isdigit()))
            grouped.setdefault((key, m["cls"]), []).append(m)
        for (key, cls), lst in sorted(grouped.items()):
            vios.append(dict(sig="%s:%s" % (cls, key), tags=tags, detail="%d; first %s %s" % (len(lst), lst[0]["origin"], lst[0]["info"])))
    return dict(violations=vios, evaluations=res.n_points, traces=1, transitions=len(spec["stages"]) + len(spec["coupling"]),
                outcome=_trans.outcome_hash(res) + explore.sha([np.round(getattr(res, "f_real", np.zeros(1)), 8).tolist()]), nontrivial=True,
                sample=dict(names=spec["names"], via=spec["via"], coupling=spec["coupling"], nw=res.nw, rows=res.n_rows))


def describe(tier):
    return dict(
        rule="(guesses declared on a template: every clone starts from them on its own horizon) (one method instance handed to 2-3 stages) (histories: a stage added directly / from a template after a first solve; an edit {subject_to, set_T, add_objective, clear_constraints, method} on a sub-stage of a solved multi-stage OCP with no parent-level call in between, or after a mere query on that sub-stage before any solve; a sub-stage parameter updated after a solve followed by a parent-level edit; next solve = fresh multi-stage OCP) (mixed methods incl. SplineMethod: every list of length <=3 over {Spline, MS, DC} containing Spline, on integrator-chain stages: multi-stage NLP = concatenation of the stages' own real NLPs + coupling rows) and every stage list of length 1..3 over a 7-stage alphabet (incl. a global parameter whose value each clone receives after cloning) (MS / DC / SS, uniform and geometric grids, N, M, free end time, both times free with a per-interval parameter, explicit time in rhs / integrand / constraints) x coupling pattern (none, state continuity, time+state continuity, shared master variable with master objective, master variable together with a master parameter, master objective on a stage, combination) x declaration pattern (direct; all cloned from templates declared with another horizon; first cloned; clone then edit one clone with siblings from the same template): real multi-stage NLP rows = disjoint union of the stages' reference rows (each read back through stage.sample) + coupling rows, objective = sum of stage objectives + master terms; template's declared state unchanged",
        bound="lists of length <=3%s" % ("" if tier == "thorough" else " (length 3 restricted)"),
        assumptions=["CasADi Function evaluation and Opti bookkeeping are trusted", "generic-point alphabet", "stage.sample is the labelling of a stage's variables"])

"""C20  Ill-posed specifications are rejected, never silently transcribed.

Fault enumeration inside the explorer: well-posed base programs x every single fault of the catalogue
x every applicable position x method x {before, after a first successful transcription}."""
import itertools
import numpy as np
from .. import explore, core
from ..common import have_networkx

ID = "C20"
CHUNK = 8


class SolverCalled(Exception):
    pass


class Block:
    """spy that refuses to run the solver: handing an NLP to the solver is itself the observation"""
    installed = False
    calls = 0
    armed = False

    @classmethod
    def install(cls):
        if cls.installed:
            return
        import casadi as ca
        o_solve, o_lim = ca.Opti.solve, ca.Opti.solve_limited

        def solve(self_, *a, **k):
            if cls.armed:
                cls.calls += 1
                raise SolverCalled()
            return o_solve(self_, *a, **k)

        def solve_limited(self_, *a, **k):
            if cls.armed:
                cls.calls += 1
                raise SolverCalled()
            return o_lim(self_, *a, **k)
        ca.Opti.solve = solve
        ca.Opti.solve_limited = solve_limited
        cls.installed = True


METHODS = ["MS", "SS", "DC", "Spline", "MS_euler"]
BASES = ["chain", "chain3", "param", "param_bspline", "twostage", "discrete", "autonomous", "controlonly", "dae"]

# fault -> (bases it applies to, positions, can be injected after a first transcription)
FAULTS = {
    "missing_der": (["chain", "chain3", "param", "twostage"], [0, 1, 2], False),
    "missing_next": (["discrete"], [0, 1], False),
    "missing_der_quad": (["chain", "param", "twostage", "discrete"], [0], True),     # a user quadrature state without its set_der
    "missing_value_global": (["param", "param_bspline", "twostage"], [0, 1], False),
    "missing_value_interval": (["param", "param_bspline"], [0], False),
    "missing_method": (["chain", "twostage", "autonomous", "controlonly"], [0, 1], False),
    "set_value_algebraic": (["dae"], [0], True),
    "set_value_quadstate": (["chain", "param"], [0], True),
    "missing_solver": (["chain", "param", "twostage"], [0], False),
    "objective_signal": (["chain", "twostage"], [0, 1], True),
    "objective_nonscalar": (["chain", "twostage"], [0, 1], True),
    "set_value_state": (["param", "param_bspline"], [0], True),
    "set_value_control": (["param", "param_bspline"], [0], True),
    "set_value_variable": (["param", "param_bspline"], [0], True),
    "set_value_unknown": (["param", "param_bspline"], [0], True),
    "set_initial_param": (["param", "param_bspline"], [0, 1, 2], True),
    "set_initial_unknown": (["param", "param_bspline"], [0], True),
    "set_initial_param_horizon": (["chain"], [0, 1], True),       # a guess given through ocp.T / ocp.t0 while the horizon is a parameter
    "grid_subject_to": (["chain"], [0], True),
    "grid_subject_to_point": (["chain"], [0, 1], True),
    "grid_sample": (["chain"], [0], True),
    "grid_sol_sample": (["chain"], [0], False),
    "foreign_rhs": (["chain", "chain3"], [0, 1], False),
    "foreign_constraint": (["chain"], [0], True),
    "foreign_objective": (["chain"], [0], True),
    "foreign_guess": (["chain"], [0], True),
    "const_false_literal": (["chain"], [0], True),
    "const_false_placeholder": (["chain"], [0], True),
    "const_false_parameter_free": (["chain"], [0], True),
    "alg_explicit": (["chain"], [0], False),
    "spline_time_varying": (["chain"], [0], False),
    "spline_nonlinear": (["chain"], [0, 1], False),
    "spline_weight": (["chain"], [0], False),
    "spline_dae": (["chain"], [0], False),
    "ode_DT": (["chain"], [0], False),
    "ode_DT_control": (["chain"], [0], False),
    "ode_T": (["chain"], [0], False),
    "ode_t0": (["chain"], [0], False),
}
ONLY_METHODS = {
    "set_value_algebraic": ["DC"],
    "alg_explicit": ["MS", "SS", "MS_euler"],
    "spline_time_varying": ["Spline"], "spline_nonlinear": ["Spline"], "spline_weight": ["Spline"], "spline_dae": ["Spline"],
    "missing_next": ["MS", "SS"],
}


def make_method(name, N=3):
    import rockit
    if name == "MS": return rockit.MultipleShooting(N=N)
    if name == "MS_euler": return rockit.MultipleShooting(N=N, M=2, intg="expl_euler")
    if name == "SS": return rockit.SingleShooting(N=N)
    if name == "DC": return rockit.DirectCollocation(N=N, degree=2)
    if name == "Spline": return rockit.SplineMethod(N=N)
    raise KeyError(name)


SOLVER = ("ipopt", {"ipopt.print_level": 0, "print_time": False, "ipopt.sb": "yes", "ipopt.max_iter": 0})


def fill_stage(st, base, fault, pos, late, with_pc=True):
    """declare a chain model on stage st.  Returns dict of symbols.  `fault` is injected here if it is a
    declaration-time fault of this stage (late faults are injected by the caller)."""
    import casadi as ca
    S = {}
    if base in ("autonomous", "controlonly"):
        # a stage with states but no control (or a control but no state) whose signals only occur in the dynamics and in
        # path constraints: nothing but the method check stands between a forgotten method() and a solved NLP
        import casadi as ca
        w = st.variable()
        if base == "autonomous":
            x = st.state(); st.set_der(x, -0.4 * x); S["x"] = [x, x]; S["u"] = None
            st.subject_to(x <= 5 + w)
        else:
            u = st.control(); S["x"] = [u, u]; S["u"] = u
            st.subject_to(u <= 5 + w)
        st.add_objective(w * w)
        S["vg"] = w
        return S
    nst = 3 if base == "chain3" else 2
    S["x"] = [st.state() for _ in range(nst)]
    S["u"] = st.control()
    if base == "param_bspline":
        base = "param"
        S["pb"] = st.parameter(grid="bspline", order=1)
    if base == "param":
        S["pg"] = st.parameter()
        S["pc"] = st.parameter(grid="control") if with_pc else st.parameter()
        S["vg"] = st.variable()
    F = lambda name: (fault == name and not late)
    # right-hand sides: integrator chain x0' = x1, x1' = (x2), last' = u
    for i in range(nst):
        rhs = S["x"][i + 1] if i + 1 < nst else S["u"]
        if F("missing_der") and pos == i:
            continue
        if F("missing_next") and pos == i:
            continue
        if F("foreign_rhs") and pos == i:
            rhs = rhs + ca.MX.sym("alien")
        if F("spline_time_varying") and i == nst - 1:
            rhs = rhs * (1 + 0 * st.t) + st.t * 0 + st.t * S["x"][0] * 0 + st.t
        if F("spline_nonlinear") and i == nst - 1:
            rhs = (rhs * rhs) if pos == 0 else ca.sin(S["x"][0]) + rhs
        if F("spline_weight") and i == nst - 1:
            rhs = 2 * rhs
        if F("ode_DT") and i == nst - 1: rhs = rhs + st.DT
        if F("ode_DT_control") and i == nst - 1: rhs = rhs + st.DT_control
        if F("ode_T") and i == nst - 1: rhs = rhs + st.T
        if F("ode_t0") and i == nst - 1: rhs = rhs + st.t0
        if base == "discrete":
            st.set_next(S["x"][i], S["x"][i] + st.DT * rhs)
        else:
            st.set_der(S["x"][i], rhs)
    if base == "dae":
        z = st.algebraic(); st.add_alg(z - 0.5 * S["x"][0]); S["z"] = z
    if F("alg_explicit") or F("spline_dae"):
        z = st.algebraic()
        st.add_alg(z - S["x"][0])
        S["z"] = z
    if "pb" in S:
        st.add_objective(0.01 * st.integral((S["x"][0] - S["pb"]) ** 2))
        if not (F("missing_value_global") and pos == 1):
            st.set_value(S["pb"], np.linspace(0, 1, 4))
    if base == "param":
        if not (F("missing_value_global") and pos == 0):
            st.set_value(S["pg"], 0.4)
        if not F("missing_value_interval"):
            st.set_value(S["pc"], 0.3)
        st.subject_to(S["x"][0] <= 5 + S["pg"] + S["pc"] + S["vg"])
    st.subject_to(st.at_t0(S["x"][0]) == 0)
    st.subject_to(-1 <= (S["u"] <= 1))
    st.add_objective(st.at_tf((S["x"][0] - 1) ** 2))
    if base == "param":
        st.add_objective(S["vg"] ** 2)
    return S


def late_fault(ocp, st, S, fault, pos, sol=None):
    """one faulty public call"""
    import casadi as ca
    x0 = S["x"][0]
    if fault == "missing_der_quad":
        st.state(quad=True)
    elif fault == "set_value_algebraic":
        st.set_value(S["z"], 1.0)
    elif fault == "set_value_quadstate":
        q = st.state(quad=True); st.set_der(q, x0 * x0)
        st.set_value(q, 1.0)
    elif fault == "objective_signal":
        st.add_objective(x0 * x0)
    elif fault == "objective_nonscalar":
        st.add_objective(st.at_tf(ca.vertcat(x0, S["x"][1])))
    elif fault == "set_value_state":
        st.set_value(x0, 1.0)
    elif fault == "set_value_control":
        st.set_value(S["u"], 1.0)
    elif fault == "set_value_variable":
        st.set_value(S["vg"], 1.0)
    elif fault == "set_value_unknown":
        st.set_value(ca.MX.sym("nobody"), 1.0)
    elif fault == "set_initial_param":
        st.set_initial(S["pg"] if pos == 0 else (S["pc"] if pos == 1 else S["pb"]), 1.0)
    elif fault == "set_initial_unknown":
        st.set_initial(ca.MX.sym("nobody"), 1.0)
    elif fault == "set_initial_param_horizon":
        hp = st.parameter()
        st.set_value(hp, 2.0 if pos == 0 else 0.0)
        (st.set_T if pos == 0 else st.set_t0)(hp)
        st.set_initial(st.T if pos == 0 else st.t0, 1.5)
    elif fault == "grid_subject_to":
        st.subject_to(x0 <= 3, grid="controls")
    elif fault == "grid_subject_to_point":
        # unknown grid name on a boundary (non-signal) constraint
        st.subject_to((st.at_t0(x0) if pos == 0 else st.at_tf(x0)) <= 3, grid="bogus")
    elif fault == "grid_sample":
        st.sample(x0, grid="controls")
    elif fault == "foreign_constraint":
        st.subject_to(x0 <= ca.MX.sym("alien"))
    elif fault == "foreign_objective":
        st.add_objective(st.at_tf(x0) * ca.MX.sym("alien"))
    elif fault == "foreign_guess":
        st.set_initial(x0, ca.MX.sym("alien") * st.t)
    elif fault == "const_false_literal":
        st.subject_to(ca.MX(1) <= 0)
    elif fault == "const_false_placeholder":
        st.subject_to(st.T <= 1)          # T is the number 2: false after placeholder substitution
    elif fault == "const_false_parameter_free":
        st.subject_to(st.t0 + st.T <= st.t0 - 1)
    else:
        raise KeyError(fault)


def scenario(base, method, fault, pos, after, shared=False):
    """returns ('raised', where, type) | ('solver_called',) | ('silent',)

    shared: the method INSTANCE given to this Ocp was given before to another, well-posed Ocp of the same process
    (solver declared before the method, then solved): nothing of that first Ocp may make the ill-posed one acceptable."""
    import rockit, casadi as ca
    Block.install()
    Block.calls = 0
    Block.armed = False
    mobj = None
    if shared:
        mobj = make_method(method)
        o1 = rockit.Ocp(T=2)
        fill_stage(o1, base, None, 0, False, with_pc=(method != "Spline"))
        o1.solver(*SOLVER)
        o1.method(mobj)
        o1.solve_limited()
    mk = (lambda: mobj) if shared else (lambda: make_method(method))
    late = fault in FAULTS and FAULTS[fault][2] and (after or True) if fault else False
    decl_fault = fault is not None and not FAULTS[fault][2]
    two = base == "twostage"
    stage_of_fault = pos if two else 0
    try:
        ocp = rockit.Ocp(T=2)
        stages = []
        if two:
            for i in range(2):
                st = ocp.stage(t0=float(i), T=1.0)
                S = fill_stage(st, "chain", fault if (decl_fault and stage_of_fault == i and fault not in ("missing_method", "missing_solver", "missing_value_global")) else None, 0, False)
                if fault == "missing_value_global" and i == 0 and decl_fault:
                    # a parameter of the sub-stage without a value
                    q = st.parameter(); st.subject_to(S["x"][0] <= 10 + q); S["q"] = q
                stages.append((st, S))
                if not (fault == "missing_method" and pos == i):
                    st.method(mk())
            ocp.subject_to(stages[0][0].at_tf(stages[0][1]["x"][0]) == stages[1][0].at_t0(stages[1][1]["x"][0]))
        else:
            S = fill_stage(ocp, base, fault if decl_fault and fault not in ("missing_method", "missing_solver") else None, pos, False, with_pc=(method != "Spline"))
            stages.append((ocp, S))
            if fault != "missing_method":
                ocp.method(mk())
        if fault != "missing_solver":
            ocp.solver(*SOLVER)
        sol = None
        if after and fault is not None and FAULTS[fault][2]:
            # a first successful transcription and (real, zero-iteration) solve
            ocp.solve_limited()
        Block.armed = True
        st, S = stages[stage_of_fault if two else 0]
        if fault is not None and FAULTS[fault][2]:
            late_fault(ocp, st, S, fault, pos)
        if fault == "grid_sol_sample":
            Block.armed = False
            sol = ocp.solve_limited()
            Block.armed = True
            sol.sample(S["x"][0], grid="controls")
            return ("silent",)
        stage_solve = True
        ocp.solve()
    except SolverCalled:
        return ("solver_called",)
    except Exception as e:
        import sys
        fr_ = core.rockit_frame(sys.exc_info()[2])
        if fr_ is None and not isinstance(e, (RuntimeError, AssertionError)):
            raise            # an exception of the harness itself must not be read as a rejection
        first = ("raised", fr_ or type(e).__name__, type(e).__name__, str(e)[:160])
        # a retry on the same object (try/except loop, re-run notebook cell) must not hand an NLP to the solver either
        if fault is not None and locals().get("stage_solve"):
            try:
                Block.armed = True
                ocp.solve()
                return ("silent_on_retry",)
            except SolverCalled:
                return ("solver_called_on_retry",)
            except Exception:
                pass
        return first
    return ("silent",)


def applicable(base, method, fault):
    if fault in ONLY_METHODS and method not in ONLY_METHODS[fault]:
        return False
    if base == "discrete" and method not in ("MS", "SS"):
        return False
    if method == "Spline" and not have_networkx():
        return False
    if base == "dae" and method != "DC":
        return False
    if base in ("autonomous", "controlonly") and method == "Spline":
        return False
    if method == "Spline" and base in ("param", "param_bspline"):
        return False     # a global variable inside a path constraint raises under SplineMethod: every case would be vacuous
    return True


def cases(tier):
    out = []
    for fault, (bases, positions, can_late) in FAULTS.items():
        for base in bases:
            for method in METHODS:
                if not applicable(base, method, fault):
                    continue
                for pos in positions:
                    if fault == "missing_der" and pos == 2 and base != "chain3":
                        continue
                    if fault == "missing_method" and pos == 1 and base != "twostage":
                        continue
                    if fault in ("set_initial_param",) and pos == 2 and base != "param_bspline":
                        continue
                    if fault == "missing_value_global" and pos == 1 and base != "param_bspline":
                        continue
                    for after in ((False, True) if can_late else (False,)):
                        out.append(dict(base=base, method=method, fault=fault, pos=pos, after=after))
                    if base != "twostage" and fault != "missing_method":
                        out.append(dict(base=base, method=method, fault=fault, pos=pos, after=False, shared=True))
    # fault-free twins (one per base x method): must reach the solver
    for base in BASES:
        for method in METHODS:
            if applicable(base, method, None):
                out.append(dict(base=base, method=method, fault=None, pos=0, after=False))
                if base != "twostage":
                    out.append(dict(base=base, method=method, fault=None, pos=0, after=False, shared=True))
    return out


def run_case(case):
    r = scenario(case["base"], case["method"], case["fault"], case["pos"], case["after"], case.get("shared", False))
    tags = (["shared_method_instance"] if case.get("shared") else []) + ["base=%s" % case["base"], "method=%s" % case["method"], "fault=%s" % case["fault"], "pos=%d" % case["pos"], "after=%s" % case["after"]]
    vios = []
    if case["fault"] is None:
        if r[0] != "solver_called":
            vios.append(dict(sig="twin:%s" % r[0], tags=tags, detail="the fault-free twin does not reach the solver: %s" % (r,)))
    else:
        if r[0] == "solver_called":
            vios.append(dict(sig="accepted:%s" % case["fault"], tags=tags, detail="an NLP was handed to the solver although the specification is ill-posed"))
        elif r[0] == "silent":
            vios.append(dict(sig="silent:%s" % case["fault"], tags=tags, detail="no exception by solve time"))
        elif r[0] in ("solver_called_on_retry", "silent_on_retry"):
            vios.append(dict(sig="accepted-on-retry:%s" % case["fault"], tags=tags, detail="the first solve raised, a second solve on the same object %s" % ("handed an NLP to the solver" if r[0].startswith("solver") else "returned silently")))
    return dict(violations=vios, evaluations=1, traces=1, transitions=2, outcome=explore.sha([case["fault"], r[0], r[1] if len(r) > 1 else None, r[2] if len(r) > 2 else None, case["method"], case["base"]]),
                nontrivial=True, counts={("raised" if r[0] == "raised" else r[0]): 1},
                sample=dict(case=case, result=list(r)[:3]))


def describe(tier):
    return dict(
        rule="fault enumeration (each rejected solve is retried once on the same object): %d fault kinds x applicable base programs (2- and 3-state integrator chains, parametric OCP with global/per-interval parameters and a variable, two-stage OCP, discrete-time model) x fault position x 5 method configurations (MS, MS expl_euler M=2, SS, DC, SplineMethod) x {before, after a first successful transcription and solve, on an Ocp that receives the method INSTANCE a well-posed Ocp of the same process was solved with}; oracle: an exception by the faulty call or at the latest by ocp.solve(), with zero calls reaching casadi.Opti.solve/solve_limited (blocking spy); every base x method has a fault-free twin that must reach the solver" % len(FAULTS),
        bound="single faults; all positions of the bases",
        assumptions=["a blocking spy at casadi.Opti.solve/solve_limited detects 'an NLP is handed to the solver'", "SplineMethod cases need the networkx wheel; without it they are not run"])

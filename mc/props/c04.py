"""C04  Every constraint is imposed exactly where declared, and nothing else is."""
import numpy as np
from .. import program as P, explore
from . import _trans

ID = "C04"
OWN = ("path", "point", "extra", "reject", "rowcount")

PATH = ["x_le", "x_vec_ge", "xu_between", "u_between", "t_eq", "xt_le", "pc_le", "vc_ge", "pg_le", "dt_le",
        "next", "prev", "off2", "offm2", "next_u", "next_pc", "next_pcq", "z_le", "x_vec_mixed", "x_vec_mixed_lb",
        "diff2", "diff2_rev", "prev_offm2", "xq_le", "pcq_le"]
POINT = ["bc0", "bcf", "bc_mixed", "periodic", "bcT", "vg_le", "intq"]
OFFS = ("next", "prev", "off2", "offm2", "next_u", "next_pc", "next_pcq", "diff2", "diff2_rev", "prev_offm2")

DIMS = dict(
    con=["x_le"] + PATH[1:] + POINT,
    cgrid=[None, "control", "integrator", "integrator_roots"],
    include_first=[True, False],
    include_last=[True, False],
    second=["none", "same", "u_between", "bcf"],
    method=["MS", "SS", "DC"],
    N=[2, 1, 3],
    M=[1, 2, 3],
    degree=[2, 1, 3],
    scheme=["radau", "legendre"],
    grid=["uniform", "geom", "free", "uniform_lt0"],
    horizon=["fixed", "Tfree", "t0param"],
    pc=[None, "control", "control+"],
    vc=[None, "control", "control+"],
    state=["vec2", "scalar", "mat22"],
)
CDIMS = ("con", "cgrid", "include_first", "include_last", "second", "method")


def forbid(a):
    if a["con"] == "xq_le" and a["cgrid"] == "integrator_roots":
        return True      # the running quadrature value is only modelled at the integrator points

    if a["con"] in OFFS and a["cgrid"] in ("integrator", "integrator_roots"):
        return True      # offsets are defined on the control grid only (statement: shifted by whole intervals)
    if a["con"] in POINT and (a["cgrid"] is not None):
        return True
    return False


def finish(a):
    a = dict(a)
    con = a.pop("con"); cg = a.pop("cgrid"); inf = a.pop("include_first"); inl = a.pop("include_last"); sec = a.pop("second")
    kw = dict(a)
    if con == "pc_le" and not kw["pc"]: kw["pc"] = "control"
    if con == "vc_ge" and not kw["vc"]: kw["vc"] = "control"
    if con == "pg_le": kw["pg"] = "scalar"
    if con == "next_pc" and not kw["pc"]: kw["pc"] = "control"
    if con in ("next_pcq", "pcq_le"): kw["pc"] = "both"
    if con == "z_le":
        kw["alg"] = True; kw["method"] = "DC"
    if con == "vg_le": kw["vg"] = True
    if con == "xq_le": kw["quad"] = True
    d = P.case(**kw)
    cons = [P.con(con, grid=cg, include_first=inf, include_last=inl)]
    if sec == "same":
        cons.append(P.con(con, grid=cg, include_first=inf, include_last=inl))
    elif sec != "none":
        cons.append(P.con(sec))
    d["cons"] = cons
    d["obj"] = ["mayer_tf", "integral"] + (["int_z"] if d["alg"] else [])
    return d


def cases(tier):
    k = 3 if tier == "thorough" else 2
    out = []; seen = set()

    def add(a, dev):
        d = finish(a)
        h = explore.sha(d)
        if h not in seen:
            seen.add(h); out.append(dict(d=d, dev=dev))
    for a, dev in explore.deviations(DIMS, k, forbid=forbid):
        add(a, dev)
    # all constraint forms x grid option x include flags x method (full sub-product of the constraint dims)
    for con in DIMS["con"]:
        for cg in DIMS["cgrid"]:
            for inf in (True, False):
                for inl in (True, False):
                    for meth in DIMS["method"]:
                        for M in ((1, 2) if tier == "thorough" else (2,)):
                            a = {n: DIMS[n][0] for n in DIMS}
                            a.update(con=con, cgrid=cg, include_first=inf, include_last=inl, method=meth, M=M, N=3)
                            if forbid(a): continue
                            add(a, ["con", "cgrid", "include_first", "include_last", "method", "M", "N"])
    # a constraint with include_first=False / include_last=False declared BEFORE another one (whose end-point instances stay)
    for con in ("x_le", "xu_between", "xt_le"):
        for cg in (None, "integrator"):
            for meth in DIMS["method"]:
                for inf, inl in ((False, True), (True, False), (False, False)):
                    for sec in ("u_between", "bcf"):
                        a = {n: DIMS[n][0] for n in DIMS}
                        a.update(con=con, cgrid=cg, include_first=inf, include_last=inl, method=meth, second=sec, M=2, N=2)
                        add(a, ["con", "cgrid", "include_first", "include_last", "method", "second"])
    # algebraic values at the final node / off the collocation points: both schemes x degree x M x grid option
    for sc in ("radau", "legendre"):
        for dg in (1, 2, 3):
            for M in (1, 2):
                for cg in (None, "integrator", "integrator_roots"):
                    for inl in (True, False):
                        a = {n: DIMS[n][0] for n in DIMS}
                        a.update(con="z_le", cgrid=cg, include_last=inl, method="DC", scheme=sc, degree=dg, M=M, N=2)
                        add(a, ["con", "cgrid", "include_last", "scheme", "degree", "M"])
    # SplineMethod (integrator-chain programs): path constraint x refine x include_first/include_last
    from ..common import have_networkx
    if have_networkx():
        for chains in ([1], [2], [1, 2], [3]):
            for N in (2, 3):
                for g in ("uniform", "geom"):
                    for r in (1, 2, 3):
                        for inc in ((True, True), (False, True), (True, False), (False, False)):
                            out.append(dict(kind="spline", chains=chains, N=N, grid=g, refine=r, inc=list(inc), dev=["Spline"]))
                            if r > 1 and inc == (True, True):
                                out.append(dict(kind="spline", chains=chains, N=N, grid=g, refine=r, inc=list(inc), refined_first=True, dev=["Spline", "refined_first"]))
                            if r == 1:
                                out.append(dict(kind="spline", chains=chains, N=N, grid=g, refine=r, inc=list(inc), with_offset=True, dev=["Spline", "offset"]))
                                if inc == (True, True):
                                    out.append(dict(kind="spline", chains=chains, N=N, grid=g, refine=r, inc=list(inc), with_offset="prev_t", dev=["Spline", "offset", "prev_t"]))
    return out


def rowcount_check(case, res, tags):
    """ocp.jacobian() has one row per NLP constraint row"""
    try:
        J = res.real.ocp.jacobian()
        if J.size1() != res.nlp.ng:
            return [dict(sig="value:rowcount", tags=tags, detail="jacobian rows %d vs g rows %d" % (J.size1(), res.nlp.ng))]
    except Exception as e:
        return [dict(sig="exception:jacobian", tags=tags, detail=str(e)[:200])]
    return []


def run_spline(case):
    import sys
    from . import c17
    from .. import core
    inc = tuple(case["inc"])
    tags = (["refined_first"] if case.get("refined_first") else []) + (["second=%s" % ("prev_t" if case.get("with_offset") == "prev_t" else "next")] if case.get("with_offset") else []) + ["method=Spline", "chains=%s" % case["chains"], "N=%d" % case["N"], "grid=%s" % case["grid"], "refine=%d" % case["refine"], "include_first=%s" % inc[0], "include_last=%s" % inc[1]]
    vios = []
    n_refs = 1
    try:
        n_missing, n_refs, n_extra = c17.spline_path_rows(case["chains"], case["N"], case["grid"], False, case["refine"], inc, with_offset=case.get("with_offset", False), refined_first=bool(case.get("refined_first")))
        if n_missing:
            vios.append(dict(sig="missing:spline:path", tags=tags, detail="%d of %d declared instances of x<=3 are not in the NLP" % (n_missing, n_refs)))
        if n_extra:
            vios.append(dict(sig="extra:spline:path:excluded-endpoint", tags=tags, detail="%d instances of x<=3 at end points excluded by include_first=%s / include_last=%s are in the NLP" % (n_extra, inc[0], inc[1])))
    except Exception as e:
        fr = core.rockit_frame(sys.exc_info()[2])
        if fr is None and not isinstance(e, (RuntimeError, AssertionError, AttributeError)):
            raise
        vios.append(dict(sig="exception:spline:%s" % (fr or type(e).__name__), tags=tags, detail="%s: %s" % (type(e).__name__, str(e)[:200])))
    return dict(violations=vios, evaluations=n_refs, traces=1, transitions=1, outcome=explore.sha([case["chains"], case["N"], case["grid"], case["refine"], inc, str(case.get("with_offset")), bool(case.get("refined_first")), [v["sig"] for v in vios]]), nontrivial=True,
                sample=dict(kind="spline", chains=case["chains"], N=case["N"], grid=case["grid"], refine=case["refine"], inc=list(inc)))


def run_case(case):
    if case.get("kind") == "spline":
        return run_spline(case)
    d = case["d"]
    out = _trans.run_trans(case, OWN, extra_check=rowcount_check)
    # finer tags for known-finding matching
    for v in out["violations"]:
        for c in d["cons"]:
            if c["c"] in ("prev", "offm2", "diff2", "diff2_rev", "prev_offm2"):
                v["tags"].append("negative_offset")
            if c["c"] in OFFS:
                v["tags"].append("offset")
            if c.get("include_last", True):
                v["tags"].append("include_last")
    return out


def describe(tier):
    return dict(
        rule="(SplineMethod: chain programs x N x grid x refine 1..3 x include_first/include_last: instances of the path constraint = the kept refined points, none at an excluded end point, also next to a second constraint with a shifted operand: next(x)-x, and x-prev(x) bounded by an expression of t) deviation-bounded enumeration over constraint form x grid option x include_first/last x second constraint x method/N/M/degree/grid/horizon (%d dims) plus the full constraint-dimension sub-product; canonical rows (equalities up to sign, inequalities as sense-preserving slacks incl. bounds) matched as multisets against the placement rule of the statement; unexplained real rows that are not pure time rows are violations; unplaceable constraints must raise; distinct = digest of row fingerprints" % len(DIMS),
        bound="k<=%d deviations + constraint sub-product" % (3 if tier == "thorough" else 2),
        assumptions=["CasADi Function evaluation and Opti bookkeeping are trusted", "generic-point alphabet for the numeric quantifier",
                     "offset operands are only enumerated on the control grid; an algebraic value off the collocation points is the value of the polynomial through the step's collocation values (the definition C07 checks for sampling)"])

"""Two interpreters for the same expression code: numpy (reference) and CasADi MX (real).

Expression code is ordinary Python written against a namespace `m` (m.sin, m.el, m.vcat, ...),
so the reference never calls rockit or CasADi and the real side is built only through
rockit's public API.  A third interpreter (forward-mode dual numbers) serves C16."""
import math
import numpy as np


class NP:
    name = "numpy"
    sin = staticmethod(np.sin)
    cos = staticmethod(np.cos)
    exp = staticmethod(np.exp)

    @staticmethod
    def el(X, i):
        """i-th element in column-major order"""
        X = np.asarray(X, dtype=float)
        if X.ndim == 0:
            assert i == 0
            return float(X)
        return float(X.ravel(order="F")[i])

    @staticmethod
    def vcat(lst):
        return np.concatenate([np.atleast_1d(np.asarray(e, dtype=float)).ravel(order="F") for e in lst]).reshape(-1, 1)

    @staticmethod
    def flat(X):
        return np.atleast_1d(np.asarray(X, dtype=float)).ravel(order="F")

    @staticmethod
    def const(a):
        return np.asarray(a, dtype=float)

    @staticmethod
    def sumall(X):
        return float(np.sum(X))

    @staticmethod
    def T(X):
        return np.asarray(X).T

    @staticmethod
    def mtimes(A, B):
        return np.asarray(A) @ np.asarray(B)


class _CA:
    name = "casadi"

    def __getattr__(self, k):
        import casadi as ca
        if k in ("sin", "cos", "exp", "mtimes"):
            return getattr(ca, k)
        raise AttributeError(k)

    @staticmethod
    def el(X, i):
        return X[i]

    @staticmethod
    def vcat(lst):
        import casadi as ca
        return ca.vertcat(*[ca.vec(ca.MX(e)) for e in lst])

    @staticmethod
    def flat(X):
        import casadi as ca
        return ca.vec(X)

    @staticmethod
    def const(a):
        import casadi as ca
        return ca.DM(np.asarray(a, dtype=float))

    @staticmethod
    def sumall(X):
        import casadi as ca
        return ca.sum1(ca.sum2(X))

    @staticmethod
    def T(X):
        return X.T


CA = _CA()


class Dual:
    """Forward-mode dual number a + b*eps (scalar)."""
    __slots__ = ("a", "b")

    def __init__(self, a, b=0.0):
        self.a = float(a); self.b = float(b)

    @staticmethod
    def lift(o):
        return o if isinstance(o, Dual) else Dual(o, 0.0)

    def __add__(self, o):
        o = Dual.lift(o); return Dual(self.a + o.a, self.b + o.b)
    __radd__ = __add__

    def __sub__(self, o):
        o = Dual.lift(o); return Dual(self.a - o.a, self.b - o.b)

    def __rsub__(self, o):
        o = Dual.lift(o); return Dual(o.a - self.a, o.b - self.b)

    def __mul__(self, o):
        o = Dual.lift(o); return Dual(self.a * o.a, self.a * o.b + self.b * o.a)
    __rmul__ = __mul__

    def __truediv__(self, o):
        o = Dual.lift(o); return Dual(self.a / o.a, (self.b * o.a - self.a * o.b) / (o.a * o.a))

    def __neg__(self):
        return Dual(-self.a, -self.b)

    def __pow__(self, n):
        assert isinstance(n, int) and n >= 0
        r = Dual(1.0)
        for _ in range(n):
            r = r * self
        return r


class DU:
    """dual-number backend (scalars only; vectors are Python lists of Dual)."""
    name = "dual"

    @staticmethod
    def el(X, i):
        if isinstance(X, (list, tuple)):
            return X[i]
        assert i == 0
        return X

    @staticmethod
    def sin(x):
        x = Dual.lift(x); return Dual(math.sin(x.a), math.cos(x.a) * x.b)

    @staticmethod
    def cos(x):
        x = Dual.lift(x); return Dual(math.cos(x.a), -math.sin(x.a) * x.b)

    @staticmethod
    def exp(x):
        x = Dual.lift(x); return Dual(math.exp(x.a), math.exp(x.a) * x.b)

"""Seams into the real implementation (all reachable from outside the package):
NLP extraction, public read-backs as one CasADi Function, canonical rows, numeric alphabets."""
import math
import numpy as np


class Nlp:
    """What the solver would receive for a transcribed Ocp, plus public read-backs."""

    def __init__(self, ocp, readbacks=None):
        import casadi as ca
        ocp._transcribed  # public queries do exactly this; forces (lazy) transcription
        self.ocp = ocp
        opti = ocp._method.opti
        self.opti = opti
        self.x = opti.x
        self.p = opti.p
        self.nx = opti.x.numel()
        self.np_ = opti.p.numel()
        self.ng = opti.g.numel()
        self.F = ca.Function("nlp", [opti.x, opti.p], [opti.f, opti.g, opti.lbg, opti.ubg])
        self.x0 = np.array(opti.debug.value(opti.x, opti.initial())).reshape(-1) if self.nx else np.zeros(0)
        self.p0 = np.array(opti.debug.value(opti.p, opti.initial())).reshape(-1) if self.np_ else np.zeros(0)
        self.rb_names = []
        self.n_extra = 0
        self.extra_fixed = {}
        self.extra0 = np.zeros(0)
        self.extras = []
        self.R = None
        if readbacks:
            self.set_readbacks(readbacks)

    def set_readbacks(self, readbacks):
        """readbacks: dict name -> MX (symbolic public samples).  Symbols outside opti.x / opti.p
        (inactive decision variables) become extra inputs."""
        import casadi as ca
        names = list(readbacks.keys())
        exprs = [ca.MX(readbacks[k]) for k in names]
        known = set(hash(e) for e in ca.symvar(ca.vertcat(self.x, self.p)))
        extras = []
        seen = set()
        for e in exprs:
            for sv in ca.symvar(e):
                h = hash(sv)
                if h not in known and h not in seen:
                    seen.add(h); extras.append(sv)
        self.extras = extras
        self.n_extra = sum(e.numel() for e in extras)
        # starting values of the inactive decision variables (they are not part of opti.x)
        self.extra0 = np.zeros(self.n_extra)
        o = 0
        for e in extras:
            try:
                val = np.array(self.opti.debug.value(e, self.opti.initial())).reshape(-1, order="F")
                self.extra0[o:o + e.numel()] = val
            except Exception:
                pass
            o += e.numel()
        # inactive *parameters* (not part of opti.p because no row uses them) keep their set value
        self.extra_fixed = {}
        if extras:
            try:
                pars = set(hash(e) for e in self.opti.advanced.symvar(ca.vertcat(*[ca.vec(e) for e in extras]), ca.OPTI_PAR))
            except Exception:
                pars = set()
            o = 0
            for e in extras:
                if hash(e) in pars:
                    val = np.array(self.opti.debug.value(e, self.opti.initial())).reshape(-1, order="F")
                    for j in range(e.numel()):
                        self.extra_fixed[o + j] = float(val[j])
                o += e.numel()
        ex = ca.vertcat(*[ca.vec(e) for e in extras]) if extras else ca.MX(0, 1)
        self.rb_names = names
        self.rb_shapes = [e.shape for e in exprs]
        self.R = ca.Function("rb", [self.x, self.p, ex], exprs)
        self.ex_sym = ex

    def eval(self, w, p=None):
        p = self.p0 if p is None else p
        f, g, lb, ub = self.F(w, p)
        return float(f), np.array(g).reshape(-1), np.array(lb).reshape(-1), np.array(ub).reshape(-1)

    def read(self, w, p=None, extra=None):
        p = self.p0 if p is None else p
        if extra is None:
            extra = np.zeros(self.n_extra)
        if self.extra_fixed:
            extra = np.array(extra, dtype=float)
            for i, v in self.extra_fixed.items():
                extra[i] = v
        out = self.R(w, p, extra)
        if not isinstance(out, (list, tuple)):
            out = [out]
        return {k: np.array(v, dtype=float) for k, v in zip(self.rb_names, out)}


# ------------------------------------------------------------------------------------------
# numeric alphabet

_PRIMES = [2, 3, 5, 7, 11, 13, 17, 19, 23, 29, 31, 37, 41, 43, 47, 53, 59, 61, 67, 71, 73, 79, 83, 89, 97, 101,
           103, 107, 109, 113, 127, 131, 137, 139, 149, 151, 157, 163, 167, 173, 179, 181, 191, 193, 197, 199,
           211, 223, 227, 229, 233, 239, 241, 251, 257, 263, 269, 271, 277, 281, 283, 293, 307, 311, 313, 317]


def generic(n, which=0, seed=0, lo=0.3, hi=1.7):
    """n pairwise distinct 'generic' numbers in [lo,hi] (fractional parts of multiples of sqrt(prime));
    deterministic; `seed` rotates the table, it never draws random numbers."""
    out = np.empty(n)
    for i in range(n):
        pr = _PRIMES[(i + 7 * which + 3 * seed) % len(_PRIMES)]
        a = math.sqrt(pr) * (1 + i // len(_PRIMES)) * (1.0 + 0.618 * which + 0.377 * seed)
        frac = (a * (i + 1.37 + which)) % 1.0
        out[i] = lo + (hi - lo) * frac
    return out


def alphabet(n, seed=0, delta=0.37, full=True):
    """two generic points plus single-coordinate excitations of the first"""
    g1 = generic(n, 0, seed)
    g2 = generic(n, 1, seed, lo=-0.8, hi=1.4)
    pts = [g1, g2]
    if full:
        for i in range(n):
            e = g1.copy(); e[i] += delta
            pts.append(e)
    return pts


# ------------------------------------------------------------------------------------------
# canonical rows

def canon_rows(nlp, pts, p=None, extra=None):
    """Canonical rows of the real NLP over the points: list of dict(kind, fp, idx, side).
    equality rows: residual g-lbg (compared up to sign); inequalities: slacks, sense preserved."""
    vals = [nlp.eval(w, p) for w in pts]
    f = np.array([v[0] for v in vals])
    if nlp.ng == 0:
        return f, []
    G = np.array([v[1] for v in vals])          # npts x ng
    LB = np.array([v[2] for v in vals])
    UB = np.array([v[3] for v in vals])
    rows = []
    for i in range(nlp.ng):
        lb, ub = LB[:, i], UB[:, i]
        if np.all(np.isfinite(lb)) and np.all(np.isfinite(ub)) and np.allclose(lb, ub, rtol=0, atol=1e-13):
            rows.append(dict(kind="eq", fp=G[:, i] - lb, idx=i, side="eq"))
        else:
            if np.all(np.isfinite(lb)):
                rows.append(dict(kind="ineq", fp=G[:, i] - lb, idx=i, side="lb"))
            if np.all(np.isfinite(ub)):
                rows.append(dict(kind="ineq", fp=ub - G[:, i], idx=i, side="ub"))
    return f, rows


def close(a, b, tol=1e-8):
    a = np.asarray(a, dtype=float); b = np.asarray(b, dtype=float)
    if a.shape != b.shape:
        return False
    if not (np.all(np.isfinite(a)) and np.all(np.isfinite(b))):
        return bool(np.all((a == b) | (np.isnan(a) & np.isnan(b))))
    return bool(np.all(np.abs(a - b) <= tol * (1.0 + np.maximum(np.abs(a), np.abs(b)))))


def proportional(a, b, kind, tol=1e-8):
    """a = c*b with c>0 (ineq) or c!=0 (eq)?"""
    na, nb = np.linalg.norm(a), np.linalg.norm(b)
    if na < 1e-14 or nb < 1e-14:
        return na < 1e-14 and nb < 1e-14
    c = float(np.dot(a, b) / (nb * nb))
    if kind == "ineq" and c <= 0:
        return False
    if c == 0:
        return False
    return close(a, c * b, tol)


def vacuous(r):
    fp = r["fp"]
    if np.ptp(fp) > 1e-13:
        return False
    return (r["kind"] == "ineq" and fp[0] >= 0) or (r["kind"] == "eq" and abs(fp[0]) < 1e-13)


def _origin_class(origin):
    parts = origin.split(":")
    if len(parts) > 1 and parts[0][:1] == "s" and parts[0][1:].isdigit():
        return parts[1]          # 's<i>:<class>:...' rows of stage i in a multi-stage program
    return parts[0]


def row_factor(real_row, ref_row):
    """c with real = c * ref (least squares) for a matched pair"""
    b = np.asarray(ref_row["fp"], dtype=float); a = np.asarray(real_row["fp"], dtype=float)
    nb = float(np.dot(b, b))
    return float(np.dot(a, b) / nb) if nb > 1e-28 else float("nan")


def der_scale_mismatches(real_rows, ref_rows, der_scales, prefix=""):
    """collocation residuals are divided by the declared derivative scale of their state component:
    matched rows '<prefix>dyn:coll:k:l:j:i' must be the reference residual times 1/der_scales[i] (up to sign)"""
    out = []
    for r in ref_rows:
        if not r["origin"].startswith(prefix + "dyn:coll:") or "match" not in r:
            continue
        i = int(r["origin"].split(":")[-1])
        c = abs(row_factor(real_rows[r["match"]], r))
        want = 1.0 / float(der_scales[i])
        if np.isfinite(c) and abs(c - want) > 1e-7 * max(1.0, want):
            out.append((r["origin"], "collocation residual of state component %d is the physical residual times %g; declared derivative scale %g gives %g" % (i, c, der_scales[i], want)))
    return out


def match_rows(real_rows, ref_rows, tol=1e-8, set_origins=("grid", "Tpos"), prop_origins=()):
    """Multiset matching of canonical rows; set-semantics (up to positive scaling) for the
    origins in set_origins.  Returns (missing_ref_rows, extra_real_rows)."""
    used = [False] * len(real_rows)
    missing = []
    multiset_refs = [r for r in ref_rows if r["origin"].split(":")[0] not in set_origins]
    set_refs = [r for r in ref_rows if r["origin"].split(":")[0] in set_origins]
    for r in multiset_refs:
        hit = None
        for j, q in enumerate(real_rows):
            if used[j] or q["kind"] != r["kind"]:
                continue
            if close(q["fp"], r["fp"], tol) or (r["kind"] == "eq" and close(q["fp"], -r["fp"], tol)):
                hit = j; break
            if _origin_class(r["origin"]) in prop_origins and proportional(q["fp"], r["fp"], r["kind"], tol):
                hit = j; break      # internal rows: scale is an implementation choice (one positive constant per row)
        if hit is None:
            if vacuous(r):
                r["vacuous"] = True     # constant and satisfied: rockit legitimately drops such rows
                continue
            missing.append(r)
        else:
            used[hit] = True
            r["match"] = hit
    for r in set_refs:
        found = False
        for j, q in enumerate(real_rows):
            if q["kind"] != r["kind"]:
                continue
            if proportional(q["fp"], r["fp"], r["kind"], tol):
                found = True
                if not used[j]:
                    used[j] = True
        if not found:
            missing.append(r)
    extra = [q for j, q in enumerate(real_rows) if not used[j]]
    return missing, extra

"""Multi-stage programs: declaration through the public API (directly or from a template) and
comparison with the disjoint union of the stages' reference transcriptions plus the coupling."""
import copy
import numpy as np
from . import program as P, nlp as NL, reftrans as RT, core
from .common import seed as get_seed


def horizon_args(d):
    import rockit
    hz = d["horizon"]
    t0 = rockit.FreeTime(d["T0"]) if hz in ("t0free", "bothfree") else d["T0"]
    T = rockit.FreeTime(d["TT"]) if hz in ("Tfree", "bothfree") else d["TT"]
    return t0, T


class Multi:
    pass


def add_stage(m, sd):
    """declare one more stage on the master (directly or from a template), through public calls only"""
    import rockit
    ocp = m.ocp; templates = m.templates
    if True:
            d = sd["d"]
            via = sd.get("via", "direct")
            t0, T = horizon_args(d)
            if via == "direct":
                st = ocp.stage(t0=t0, T=T)
                mobj = True
                if getattr(m, "share_method", False):
                    # one method INSTANCE handed to every stage (their method specifications are equal)
                    if m.shared_method is None:
                        m.shared_method = P.make_method(d)
                    mobj = m.shared_method
                r = P.declare(d, ocp=ocp, stage=st, solver=False, method=mobj)
            else:
                key = sd.get("tmpl", 0)
                keep = bool(sd.get("keep_horizon"))
                if key not in templates:
                    if keep:
                        # the template declares the horizon (FreeTime included); the clone is made without t0= / T=
                        th0, thT = horizon_args(sd["tmpl_d"])
                        tm = rockit.Stage(t0=th0, T=thT)
                    else:
                        tm = rockit.Stage(t0=sd["tmpl_d"]["T0"], T=sd["tmpl_d"]["TT"])
                    # the template carries the default horizon of its own declaration; clones override t0/T
                    rt = P.declare(sd["tmpl_d"], ocp=ocp, stage=tm, solver=False)
                    templates[key] = rt
                    rt.decl0 = template_state(rt)
                rt = templates[key]
                if keep:
                    st = ocp.stage(rt.st)
                elif d["horizon"] == "Tparam":
                    st = ocp.stage(rt.st, t0=t0)          # the horizon stays the template's parameter
                else:
                    st = ocp.stage(rt.st, t0=t0, T=T)
                r = P.Real()
                r.d = d; r.ocp = ocp; r.st = st
                r.sym = dict(rt.sym)
                for k in ("t", "T", "t0", "tf", "DT", "DT_control"):
                    r.sym[k] = getattr(st, k)
                r.pt = P.RealPt(st, r.sym)
                # edits applied to this clone only
                # a parameter value given to this clone only, after cloning
                if d["pg"] == "scalar" and "pg" in d.get("pvals", {}):
                    st.set_value(r.sym["pg"], d["pvals"]["pg"])
                if d["horizon"] == "Tparam" and "TT" in d.get("pvals", {}):
                    st.set_value(r.sym["Tp"], d["pvals"]["TT"])
                if sd.get("der_scale"):
                    st.set_der(r.sym["x"], P.rhs(P.CA, r.sym, d)["x"], scale=sd["der_scale"])
                if sd.get("clear_cons"):
                    st.clear_constraints()
                for c in sd.get("extra_cons", []):
                    rel = P.CONS[c["c"]](P.CA, r.pt, d)
                    st.subject_to(P.apply_rel(rel))
                for o in sd.get("extra_obj", []):
                    st.add_objective(P.OBJS[o](P.CA, r.pt, d))
                if sd.get("own_method"):
                    st.method(P.make_method(d))
                for ent in sd.get("extra_init", []):
                    P.apply_init(st, r.sym, d, ent)
            m.reals.append(r)


def declare_multi(spec, upto=None, couple=True):
    """spec: dict(stages=[{d:..., via: 'direct'|'clone'|'clone_edit_after', tmpl: idx}], coupling=[...])"""
    import rockit, casadi as ca
    m = Multi()
    ocp = rockit.Ocp()
    m.ocp = ocp
    m.reals = []
    templates = {}
    m.templates = templates
    m.share_method = bool(spec.get("share_method"))
    m.shared_method = None
    for i, sd in enumerate(spec["stages"]):
        if upto is not None and i >= upto:
            break
        add_stage(m, sd)
    m.w = None
    if couple:
        add_coupling(m, spec.get("coupling", []))
    ocp.solver("ipopt", {"ipopt.print_level": 0, "print_time": False, "ipopt.sb": "yes"})
    return m


def add_coupling(m, coupling):
    """master-level coupling constraints / variables / objective terms"""
    ocp = m.ocp
    for cp in coupling:
        k = cp[0]
        if k == "continuity":
            i = cp[1]
            a, b = m.reals[i], m.reals[i + 1]
            ocp.subject_to(a.st.at_tf(a.sym["x"]) == b.st.at_t0(b.sym["x"]))
        elif k == "time":
            i = cp[1]
            a, b = m.reals[i], m.reals[i + 1]
            ocp.subject_to(a.st.tf == b.st.t0)
        elif k == "master_var":
            m.w = ocp.variable()
            for r in m.reals:
                ocp.subject_to(r.st.at_t0(r.sym["x"][0]) <= m.w)
            ocp.add_objective(0.5 * m.w * m.w + 0.3 * m.w)
        elif k == "master_var_par":
            # the parent owns a global variable AND a global parameter
            m.w = ocp.variable()
            m.qpar = ocp.parameter()
            ocp.set_value(m.qpar, 0.65)
            for r in m.reals:
                ocp.subject_to(r.st.at_t0(r.sym["x"][0]) <= m.w + 2 * m.qpar)
            ocp.add_objective(0.5 * m.w * m.w + 0.3 * m.w * m.qpar)
        elif k == "master_obj":
            r = m.reals[cp[1]]
            ocp.add_objective(0.7 * r.st.at_tf(r.sym["x"][0]))


def template_state(rt):
    st = rt.st
    return dict(nstates=len(st.states), ncontrols=len(st.controls), obj=str(st.objective)[:300],
                ncons=sum(len(v) for v in st._constraints.values()), T=str(st._T), t0=str(st._t0),
                nparam=sum(len(v) for v in st.parameters.values()), nvars=sum(len(v) for v in st.variables.values()),
                ninit=len(st._initial))


def compare_multi(spec):
    import sys, casadi as ca
    res = core.CaseResult(spec)
    try:
        m = declare_multi(spec)
        rb = {}
        for i, r in enumerate(m.reals):
            for k, v in core.readbacks(r).items():
                rb["s%d.%s" % (i, k)] = v
        if m.w is not None:
            rb["w"] = m.ocp.value(m.w)
        nlp = NL.Nlp(m.ocp, rb)
    except Exception as e:
        fr = core.rockit_frame(sys.exc_info()[2])
        if fr is None and not isinstance(e, (RuntimeError, AssertionError, AttributeError)):
            raise
        res.exception = dict(type=type(e).__name__, msg=str(e)[:300], frame=fr)
        return res
    sd = get_seed()
    epts = NL.alphabet(nlp.nx + nlp.n_extra, seed=sd, full=True)
    pts = [e[:nlp.nx] for e in epts]; exs = [e[nlp.nx:] for e in epts]
    res.nw = nlp.nx; res.n_points = len(pts)
    f_real, rows_real = NL.canon_rows(nlp, pts)
    res.n_rows = len(rows_real)
    ref_rows = None; f_ref = []
    ns = len(spec["stages"])
    for w, ex in zip(pts, exs):
        q = nlp.read(w, extra=ex)
        trs = []
        rr = []; fo = 0.0
        for i, sdd in enumerate(spec["stages"]):
            d = dict(sdd["d"])
            if sdd.get("extra_cons"):
                d = dict(d); d["cons"] = list(d["cons"]) + list(sdd["extra_cons"])
            qi = {k[len("s%d." % i):]: v for k, v in q.items() if k.startswith("s%d." % i)}
            tr = RT.RefTraj(d, qi)
            trs.append(tr)
            rr += [("s%d:%s" % (i, o), k, v) for o, k, v in tr.dyn_rows() + tr.con_rows()]
            fo += tr.objective()
        for cp in spec.get("coupling", []):
            k = cp[0]
            if k == "continuity":
                a, b = trs[cp[1]], trs[cp[1] + 1]
                dv = a.X[:, a.N] - b.X[:, 0]
                rr += [("couple:cont:%d" % cp[1], "eq", float(e)) for e in dv]
            elif k == "time":
                a, b = trs[cp[1]], trs[cp[1] + 1]
                rr.append(("couple:time:%d" % cp[1], "eq", float(a.t0 + a.T - b.t0)))
            elif k == "master_var":
                wv = float(q["w"].reshape(-1)[0])
                for i, tr in enumerate(trs):
                    rr.append(("couple:w:%d" % i, "ineq", wv - float(tr.X[0, 0])))
                fo += 0.5 * wv * wv + 0.3 * wv
            elif k == "master_var_par":
                wv = float(q["w"].reshape(-1)[0]); qp = 0.65
                for i, tr in enumerate(trs):
                    rr.append(("couple:w:%d" % i, "ineq", wv + 2 * qp - float(tr.X[0, 0])))
                fo += 0.5 * wv * wv + 0.3 * wv * qp
            elif k == "master_obj":
                tr = trs[cp[1]]
                fo += 0.7 * float(tr.X[0, tr.N])
        f_ref.append(fo)
        if ref_rows is None:
            # each stage reports its own declared horizon and control grid
            for i, tr in enumerate(trs):
                tcq = np.asarray(q["s%d.tc" % i], dtype=float).reshape(-1)
                if not NL.close(tcq, tr.tc, 1e-9):
                    res.add("s%d:time:control" % i, "value", "sampled control grid %s vs declared %s" % (np.round(tcq, 6), np.round(tr.tc, 6)))
                Tq = float(np.asarray(q["s%d.T" % i]).reshape(-1)[0]); t0q = float(np.asarray(q["s%d.t0" % i]).reshape(-1)[0])
                if not NL.close(Tq, tr.T, 1e-9) or not NL.close(t0q, tr.t0, 1e-9):
                    res.add("s%d:time:horizon" % i, "value", "value(T,t0)=%g,%g vs declared %g,%g" % (Tq, t0q, tr.T, tr.t0))
            ref_rows = [dict(origin=o, kind=k, fp=[v]) for o, k, v in rr]
        else:
            for a, (o, k, v) in zip(ref_rows, rr):
                a["fp"].append(v)
    for a in ref_rows:
        a["fp"] = np.array(a["fp"])
    f_ref = np.array(f_ref)
    if not (np.all(np.isfinite(f_ref)) and all(np.all(np.isfinite(a["fp"])) for a in ref_rows)):
        raise FloatingPointError("reference non-finite")
    scaled = any(sdd["d"].get("scales") for sdd in spec["stages"])
    missing, extra = NL.match_rows(rows_real, ref_rows, prop_origins=(("dyn",) if scaled else ()))
    for i, sdd in enumerate(spec["stages"]):
        if scaled and sdd["d"]["method"] == "DC":
            for o, msg in NL.der_scale_mismatches(rows_real, ref_rows, core.der_scales_of(sdd["d"]), prefix="s%d:" % i)[:2]:
                res.add("s%d:scale:der" % i, "value", "%s: %s" % (o, msg))
    tcoords = core.time_coords(nlp, pts[0], names=[n for n in nlp.rb_names if n.endswith(".tc") or n.endswith(".T") or n.endswith(".t0")])
    for m_ in missing:
        res.add(m_["origin"], "missing", "")
    for q_ in extra:
        dep = [i for i in range(nlp.nx) if abs(q_["fp"][2 + i] - q_["fp"][0]) > 1e-12]
        if dep and all(i in tcoords for i in dep):
            continue
        res.add("extra", "extra", "g[%d] %s dep=%s" % (q_["idx"], q_["side"], dep[:8]))
    if not NL.close(f_real, f_ref, 1e-8):
        res.add("obj", "value", "real=%s ref=%s" % (f_real[:2], f_ref[:2]))
    # templates unchanged
    for key, rt in m.templates.items():
        now = template_state(rt)
        if now != rt.decl0:
            res.add("template", "changed", "before %s after %s" % (rt.decl0, now))
    res.nlp = nlp
    res.m = m
    res.rows_real = rows_real
    res.f_real = f_real
    return res

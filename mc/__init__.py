"""Bounded exhaustive exploration of rockit's public API against a reference transcription."""

"""Program alphabet: a *case* is a plain dict of dimension values (JSON-able).

The same expression code (written against a backend namespace `m` and a point object `pt`)
is used to (a) declare the OCP through rockit's public API and (b) evaluate the reference.
Nothing here reads rockit internals."""
import copy
import numpy as np
from .backends import NP, CA

# ------------------------------------------------------------------------------------------
# default case.  Defaults are deliberately non-degenerate (t0 != 0, T != 1, no symmetric values)
DEFAULT = dict(
    method="MS", intg="rk", N=2, M=1, degree=2, scheme="radau",
    grid="uniform", horizon="fixed",
    state="vec2", rhs="nl_t", control="one",
    pg=None,        # None | 'scalar' | 'mat'
    pc=None,        # None | 'control' | 'control+'
    vg=False,
    vc=None,        # None | 'control' | 'control+'
    alg=False,      # one algebraic variable (DC only)
    second=False,   # a second (scalar) state y
    cons=[],        # list of constraint specs
    obj=[],         # list of objective term specs
    scales={},      # slot -> scale
    T0=0.7, TT=1.9,
    concat=False,   # declare the dynamics with one set_der/set_next call on a concatenation of the states
    pvals={},       # overrides of parameter values: pg, pgm, pc (list), TT, T0 (parametric horizon)
    init=[],        # ordered set_initial calls: [target, form, value]
    Tguess=None, t0guess=None,
)

PARAM_VALUES = dict(pg=0.45, T=1.9, t0=0.7)


def case(**kw):
    d = copy.deepcopy(DEFAULT)
    d.update(copy.deepcopy(kw))
    return d


def pc_table(d, which="pc"):
    """value table of the per-interval parameter: one column per interval (+1 for control+).
    which='pcq': the second (always include_last) parameter present when d['pc']=='both'"""
    if which == "pcq":
        v = d.get("pvals", {}).get("pcq")
        if v is not None:
            return np.full((1, d["N"] + 1), float(v))      # a scalar given to every node
        return np.array([[0.2 + 0.19 * k + 0.04 * k * k for k in range(d["N"] + 1)]])
    n = d["N"] + (1 if d[which] == "control+" else 0)
    base = 0.3 if which == "pc" else 0.2
    return np.array([[base + 0.27 * k + 0.05 * k * k for k in range(n)]])


def pgm_value():
    return np.array([[0.2, -0.35], [0.15, 0.4]])


def state_shapes(d):
    sh = {"scalar": (1, 1), "vec2": (2, 1), "mat22": (2, 2), "vec3": (3, 1)}[d["state"]]
    out = [("x", sh)]
    if d["second"]:
        out.append(("y", (2, 1) if d["second"] == "vec" else (1, 1)))
    return out


def nx_of(d):
    return sum(r * c for _, (r, c) in state_shapes(d))


def nu_of(d):
    return {"one": 1, "none": 0, "two": 2}[d["control"]]


# ------------------------------------------------------------------------------------------
# dynamics (both backends)

def u0_of(m, s, d):
    if d["control"] == "none":
        return 0.35
    return m.el(s["u"], 0)


def rhs(m, s, d):
    """returns dict state name -> derivative (continuous) or next value (set_next)"""
    X = s["x"]; t = s["t"]
    u0 = u0_of(m, s, d)
    kind = d["rhs"]
    if d["intg"] == "set_next":
        # discrete-time model using DT, DT_control and t
        nxt = X + s["DT"] * (-0.7 * X + 0.4 * m.sin(X) * u0) + 0.1 * s["DT_control"] * m.sin(t) * X + 0.05 * s["DT_control"]
        if d["pg"] == "scalar":
            nxt = nxt + s["DT"] * s["pg"] * X
        if d["pc"]:
            nxt = nxt + 0.6 * s["DT"] * s["pc"]
        if d["pc"] == "both":
            nxt = nxt + 0.35 * s["DT"] * s["pcq"]
        if d["vc"] == "both":
            nxt = nxt + 0.25 * s["DT"] * s["vcq"]
        if d["vc"] == "two":
            nxt = nxt + 0.3 * s["DT"] * s["vc2"] * X
        if d["vg"]:
            nxt = nxt + 0.5 * s["DT"] * s["vg"] * m.sin(X)
        if d["vc"]:
            nxt = nxt + 0.3 * s["DT"] * s["vc"]
        out = {"x": nxt}
        if d["second"]:
            out["y"] = s["y"] + s["DT"] * (-0.3 * s["y"] + 0.2 * m.el(X, 0) * u0) + 0.1 * s["DT_control"] * t
        return out
    if kind == "lin_t":
        dx = (-0.6 + 0.3 * t) * X + (0.8 - 0.25 * t * t) * u0 + 0.15 * t
    elif kind == "nl":
        dx = -0.7 * X + 0.4 * m.sin(X) * u0 + 0.25 * X * m.cos(X)
    elif kind == "nl_t":
        dx = -0.7 * X + 0.4 * m.sin(X) * u0 + 0.25 * X * m.cos(X) + 0.5 * m.cos(1.3 * t) + 0.2 * t * X
    elif kind == "lin":
        dx = -0.6 * X + 0.8 * u0 + 0.15
    elif kind == "poly1":       # solution is a polynomial of degree 1
        dx = 0.7 + 0.0 * X
    elif kind == "poly2":       # ... of degree 2
        dx = 0.6 * t + 0.2 + 0.0 * X
    elif kind == "polyd":       # ... of the scheme's degree
        # degree up to which the statement promises exactness: 1 (expl_euler), 2 (rk), d (collocation)
        n_ = d["degree"] if d["method"] == "DC" else (1 if d["intg"] == "expl_euler" else 2)
        dx = t ** (n_ - 1) + 0.0 * X
    else:
        raise KeyError(kind)
    if d["control"] == "two":
        dx = dx + 0.45 * m.el(s["u"], 1) * (1 + 0.2 * t)
    if d["pg"] == "scalar":
        dx = dx + s["pg"] * X
    if d["pg"] == "mat":
        assert d["state"] == "vec2"
        dx = dx + m.mtimes(s["pg"], X)
    if d["pc"]:
        dx = dx + 0.6 * s["pc"]
    if d["pc"] == "both":
        dx = dx + 0.35 * s["pcq"]
    if d["vc"] == "both":
        dx = dx + 0.25 * s["vcq"]
    if d["vc"] == "two":
        dx = dx + 0.3 * s["vc2"] * m.cos(X)
    if d["vg"]:
        dx = dx + 0.5 * s["vg"] * m.sin(X)
    if d["vc"]:
        dx = dx + 0.3 * s["vc"]
    if d["alg"]:
        dx = dx + 0.4 * s["z"]
    out = {"x": dx}
    if d["second"]:
        out["y"] = -0.3 * s["y"] + 0.2 * m.el(X, 0) * u0 + 0.1 * t
    return out


def quad_integrand(m, s, d):
    """integrand of the user-declared quadrature state q (d['quad'])"""
    x0 = m.el(s["x"], 0)
    return 0.5 + x0 * x0 + 0.3 * s["t"]


def alg(m, s, d):
    """residual of the algebraic equation (index 1 in z)"""
    z = s["z"]
    return z + 0.1 * z * z * z - 0.5 * m.el(s["x"], 0) - 0.2 * m.sin(s["t"])


# ------------------------------------------------------------------------------------------
# constraint catalogue: fn(m, pt, d) -> ('eq'|'le'|'ge', lhs, rhs) | ('between', lb, e, ub)

def _x0(m, pt):
    return m.el(pt.s["x"], 0)


def c_x_le(m, pt, d):
    return ("le", _x0(m, pt), 1.3)


def c_x_vec_ge(m, pt, d):
    return ("ge", m.flat(pt.s["x"]), -0.2)    # vector-valued (a square-matrix inequality would be a PSD constraint in Opti)


def c_x_vec_mixed(m, pt, d):
    # vector-valued two-sided constraint, one of whose upper bounds is infinite
    import math
    x = m.flat(pt.s["x"])
    n = 2 if d["state"] == "vec2" else (4 if d["state"] == "mat22" else 1)
    ub = m.const([math.inf] + [1.3] * (n - 1)) if n > 1 else 1.3
    return ("between", -0.4, x, ub)


def c_x_vec_mixed_lb(m, pt, d):
    # vector-valued two-sided constraint, one of whose LOWER bounds is infinite (a box with a free side)
    import math
    x = m.flat(pt.s["x"])
    n = 2 if d["state"] == "vec2" else (4 if d["state"] == "mat22" else 1)
    lb = m.const([-math.inf] + [-0.45] * (n - 1)) if n > 1 else -0.45
    return ("between", lb, x, 1.25)


def c_xu_between(m, pt, d):
    return ("between", -0.9, _x0(m, pt) * u0_of(m, pt.s, d), 1.1)


def c_u_between(m, pt, d):
    return ("between", -1.0, u0_of(m, pt.s, d), 1.2)


def c_t_eq(m, pt, d):
    return ("eq", _x0(m, pt), 0.4 * pt.s["t"] + 0.1)


def c_xt_le(m, pt, d):
    return ("le", _x0(m, pt) * (1 + 0.3 * pt.s["t"]), 1.7)


def c_pc_le(m, pt, d):
    return ("le", _x0(m, pt), pt.s["pc"] + 1.0)


def c_vc_ge(m, pt, d):
    return ("ge", pt.s["vc"], _x0(m, pt) - 2.0)


def c_pg_le(m, pt, d):
    return ("le", _x0(m, pt), pt.s["pg"] + 1.1)


def c_z_le(m, pt, d):
    return ("le", pt.s["z"], 0.9 + 0.1 * pt.s["t"])


def c_dt_le(m, pt, d):
    return ("le", _x0(m, pt) * pt.s["DT_control"] + 0.5 * pt.s["DT"], 2.0)


def c_next(m, pt, d):
    return ("le", pt.next(_x0) - _x0(m, pt), 0.5)


def c_prev(m, pt, d):
    return ("le", _x0(m, pt) - pt.prev(_x0), 0.45)


def c_off2(m, pt, d):
    return ("le", pt.offset(_x0, 2) - _x0(m, pt), 0.55)


def c_offm2(m, pt, d):
    return ("le", _x0(m, pt) - pt.offset(_x0, -2), 0.6)


def c_x_between_pg(m, pt, d):
    # two-sided with a PARAMETRIC upper bound (needs pg == 'scalar')
    return ("between", -1.5, _x0(m, pt), 1.3 + pt.s["pg"])


def c_x_le_xv(m, pt, d):
    # unknowns on BOTH sides of the inequality (needs a global variable and a second state component)
    return ("le", _x0(m, pt), 0.5 * m.el(pt.s["x"], 1) + pt.s["vg"] + 1.4)


def c_pcq_le(m, pt, d):
    # an include_last per-interval parameter next to a plain one (pc == 'both')
    return ("le", _x0(m, pt), pt.s["pcq"] + 0.5 * pt.s["pc"] + 1.0)


def c_xq_le(m, pt, d):
    # a user quadrature state mixed with a state (needs d['quad'])
    return ("le", _x0(m, pt) - 2.0 * pt.s["q"], 0.9)


def c_diff2(m, pt, d):
    # operands at several different offsets, the negative one first
    return ("le", pt.prev(_x0) - 2 * _x0(m, pt) + pt.next(_x0), 0.65)


def c_diff2_rev(m, pt, d):
    return ("le", pt.next(_x0) - 2 * _x0(m, pt) + pt.prev(_x0), 0.65)


def c_prev_offm2(m, pt, d):
    return ("le", pt.prev(_x0) - pt.offset(_x0, -2) + 0.1 * _x0(m, pt), 0.7)


def c_next_pcq(m, pt, d):
    # offset operand that contains an include_last per-interval parameter (own entry at the final node)
    g = lambda m_, p_: _x0(m_, p_) + p_.s["pcq"]
    return ("le", pt.next(g) - _x0(m, pt), 1.9)


def c_next_pc(m, pt, d):
    g = lambda m_, p_: _x0(m_, p_) * p_.s["pc"]
    return ("le", pt.next(g) - _x0(m, pt), 1.7)


def c_next_u(m, pt, d):
    uu = lambda m_, p_: u0_of(m_, p_.s, d)
    return ("le", pt.next(uu) - uu(m, pt), 0.3)


def c_bc0_pg(m, pt, d):
    # initial condition given by a parameter
    return ("eq", pt.at_t0(_x0), pt.s["pg"])


def c_bc0(m, pt, d):
    X0 = pt.at_t0(lambda m_, p_: p_.s["x"])
    return ("eq", X0, 0.6)


def c_bcf(m, pt, d):
    return ("eq", pt.at_tf(_x0), 0.3)


def c_bc_mixed(m, pt, d):
    return ("le", pt.at_t0(_x0) + 0.5 * pt.at_tf(_x0), 2.1)


def c_periodic(m, pt, d):
    g = lambda m_, p_: p_.s["x"]
    return ("eq", pt.at_t0(g), pt.at_tf(g))


def c_bcT(m, pt, d):
    return ("ge", pt.at_tf(_x0), 0.1 * pt.s["T"] + 0.05 * pt.s["t0"])


def c_vg_le(m, pt, d):
    return ("le", pt.s["vg"], 0.9)


def c_T_le(m, pt, d):
    return ("le", pt.s["T"], 2.5)


def c_tf_le(m, pt, d):
    return ("le", pt.s["tf"], 3.5)


def c_intq(m, pt, d):
    # point constraint on an integral
    return ("le", pt.integral(lambda m_, p_: _x0(m_, p_) * _x0(m_, p_)), 5.0)


CONS = {k[2:]: v for k, v in list(globals().items()) if k.startswith("c_")}
POINT_CONS = {"bc0_pg", "bc0", "bcf", "bc_mixed", "periodic", "bcT", "vg_le", "T_le", "tf_le", "intq"}


def con(name, grid=None, include_first=True, include_last=True, scale=1):
    return dict(c=name, grid=grid, include_first=include_first, include_last=include_last, scale=scale)


# ------------------------------------------------------------------------------------------
# objective catalogue: fn(m, pt, d) -> scalar (pt is the global point)

def _sq(m, pt):
    x = _x0(m, pt)
    return x * x


def o_mayer_tf(m, pt, d):
    return pt.at_tf(lambda m_, p_: _sq(m_, p_) + 0.3 * _x0(m_, p_))


def o_mayer_T(m, pt, d):
    # horizon symbols INSIDE a boundary evaluation (normalised quantities)
    return pt.at_tf(lambda m_, p_: _x0(m_, p_) * p_.s["T"] + 0.2 * (p_.s["t"] - p_.s["t0"]) / p_.s["T"])


def o_sum_T(m, pt, d):
    # ... and inside sum / integral on the control grid
    return pt.sum(lambda m_, p_: _x0(m_, p_) * p_.s["T"] + (p_.s["t"] - p_.s["t0"]) / p_.s["T"]) + pt.integral_control(lambda m_, p_: 0.3 * _x0(m_, p_) / p_.s["T"])


def o_mayer_Tonly(m, pt, d):
    # the horizon (but not time) inside a boundary evaluation
    return pt.at_tf(lambda m_, p_: _x0(m_, p_) * p_.s["T"] + 0.1 * _sq(m_, p_) / p_.s["T"])


def o_mayer_t0(m, pt, d):
    return 0.7 * pt.at_t0(_sq)


def o_sum(m, pt, d):
    return pt.sum(lambda m_, p_: _sq(m_, p_) + 0.2 * u0_of(m_, p_.s, d) * _x0(m_, p_))


def o_sum_last(m, pt, d):
    return pt.sum(lambda m_, p_: _sq(m_, p_) * (1 + 0.1 * p_.s["t"]), include_last=True)


def o_int_control(m, pt, d):
    return pt.integral_control(lambda m_, p_: _sq(m_, p_) + 0.5 * u0_of(m_, p_.s, d) * u0_of(m_, p_.s, d))


def o_integral(m, pt, d):
    return pt.integral(lambda m_, p_: _sq(m_, p_) + 0.5 * u0_of(m_, p_.s, d) * u0_of(m_, p_.s, d))


def o_qstate_t(m, pt, d):
    # Lagrange term written as the final value of a quadrature state declared by the user
    return pt.quad_state(lambda m_, p_: m_.sin(p_.s["t"]) * _x0(m_, p_) + 0.3 * p_.s["t"] + 0.25 * u0_of(m_, p_.s, d))


def o_integral_t(m, pt, d):
    return pt.integral(lambda m_, p_: m_.sin(p_.s["t"]) * _x0(m_, p_) + 0.3 * p_.s["t"])


def o_integral_one(m, pt, d):
    return pt.integral(lambda m_, p_: 1.0 + 0.0 * _x0(m_, p_))


def o_integral_pc(m, pt, d):
    return pt.integral(lambda m_, p_: p_.s["pc"] * _x0(m_, p_))


def o_integral_pcq(m, pt, d):
    return pt.integral(lambda m_, p_: p_.s["pc"] * _x0(m_, p_) + 0.7 * p_.s["pcq"] * _x0(m_, p_) * _x0(m_, p_))


def o_integral_vc(m, pt, d):
    return pt.integral(lambda m_, p_: p_.s["vc"] * _x0(m_, p_) + 0.5 * p_.s["vc"] * p_.s["vc"])


def o_T(m, pt, d):
    return 0.8 * pt.s["T"] + 0.1 * pt.s["t0"] * pt.s["T"]


def o_tf(m, pt, d):
    return 0.6 * pt.s["tf"]


def o_vg(m, pt, d):
    return 0.5 * pt.s["vg"] * pt.s["vg"] + 0.1 * pt.s["vg"]


def o_pg(m, pt, d):
    return pt.s["pg"] * pt.at_tf(_x0)


def o_int_T(m, pt, d):
    return pt.integral(lambda m_, p_: _sq(m_, p_) * p_.s["T"] + p_.s["t0"] * 0.2)


def o_int_z(m, pt, d):
    return pt.integral(lambda m_, p_: p_.s["z"] * p_.s["z"] + 0.1 * _x0(m_, p_))


OBJS = {k[2:]: v for k, v in list(globals().items()) if k.startswith("o_")}


# ------------------------------------------------------------------------------------------
# grids (construction of rockit's grid objects from the JSON-able name)

def user_grid_function(N):
    """the user's normalised node locations (module level so that an Ocp using it can be pickled)"""
    return [(k / N) ** 2 * 0.6 + 0.4 * k / N for k in range(N + 1)]


def make_grid(name):
    import rockit
    from rockit.sampling_method import UniformGrid, GeometricGrid, FreeGrid, FunctionGrid, DensityGrid, DenseEdgesGrid
    import casadi as ca
    if isinstance(name, (list, tuple)):
        kind, opts = name[0], dict(name[1])
    else:
        kind, opts = name, {}
    kw = {}
    for k in ("localize_t0", "localize_T", "min", "max"):
        if k in opts:
            kw[k] = opts[k]
    if kind == "uniform":
        return UniformGrid(**kw)
    if kind == "geom":
        if "local" in opts:
            kw["local"] = opts["local"]        # otherwise the library's own default (global growth factor) is exercised
        return GeometricGrid(opts.get("g", 2), **kw)
    if kind == "free":
        return FreeGrid(**kw)
    if kind == "function":
        return FunctionGrid(user_grid_function, **kw)
    if kind == "density":
        tau = ca.MX.sym("tau")
        dens = {"lin": 1 + tau, "sq": 0.2 + tau * tau}[opts.get("dens", "lin")]
        return DensityGrid(dens, **kw)
    if kind == "dense_edges":
        for k in ("multiplier", "edge_frac"):
            if k in opts:
                kw[k] = opts[k]
        return DenseEdgesGrid(**kw)
    raise KeyError(kind)


GRIDS = {
    "uniform": "uniform",
    "geom": ("geom", {"g": 2}),
    "geom_local": ("geom", {"g": 2, "local": True}),
    "geom4": ("geom", {"g": 4}),
    "function": "function",
    "density": ("density", {"dens": "lin"}),
    "free": "free",
    "uniform_lt0": ("uniform", {"localize_t0": True}),
    "uniform_lT": ("uniform", {"localize_T": True}),
    "uniform_lt0_lT": ("uniform", {"localize_t0": True, "localize_T": True}),
    "geom_lt0_lT": ("geom", {"g": 2, "localize_t0": True, "localize_T": True}),
    "geom_lT": ("geom", {"g": 2, "localize_T": True}),
}


def grid_spec(d):
    g = d["grid"]
    if isinstance(g, str):
        return GRIDS[g]
    return g


def grid_kind_opts(d):
    g = grid_spec(d)
    if isinstance(g, (list, tuple)):
        return g[0], dict(g[1])
    return g, {}


def make_method(d):
    import rockit
    g = make_grid(grid_spec(d))
    kw = dict(N=d["N"], M=d["M"], grid=g)
    if d["method"] == "MS":
        return rockit.MultipleShooting(intg=("rk" if d["intg"] == "set_next" else d["intg"]), **kw)
    if d["method"] == "SS":
        return rockit.SingleShooting(intg=("rk" if d["intg"] == "set_next" else d["intg"]), **kw)
    if d["method"] == "DC":
        return rockit.DirectCollocation(degree=d["degree"], scheme=d["scheme"], **kw)
    raise KeyError(d["method"])


# ------------------------------------------------------------------------------------------
# real-side point object

class RealPt:
    def __init__(self, ocp, s):
        self.ocp = ocp
        self.s = s

    def next(self, fn):
        return self.ocp.next(fn(CA, self))

    def prev(self, fn):
        return self.ocp.prev(fn(CA, self))

    def offset(self, fn, o):
        return self.ocp.offset(fn(CA, self), o)

    def at_t0(self, fn):
        return self.ocp.at_t0(fn(CA, self))

    def at_tf(self, fn):
        return self.ocp.at_tf(fn(CA, self))

    def integral(self, fn):
        return self.ocp.integral(fn(CA, self))

    def integral_control(self, fn):
        return self.ocp.integral(fn(CA, self), grid="control")

    def quad_state(self, fn):
        # the same quantity through a user-declared quadrature state
        q = self.ocp.state(quad=True)
        self.ocp.set_der(q, fn(CA, self))
        return self.ocp.at_tf(q)

    def sum(self, fn, include_last=False):
        return self.ocp.sum(fn(CA, self), include_last=include_last)


def apply_rel(rel):
    """turn ('le', a, b) etc. into a CasADi relational expression"""
    import casadi as ca
    k = rel[0]
    if k == "eq":
        return ca.MX(rel[1]) == rel[2]
    if k == "le":
        return ca.MX(rel[1]) <= rel[2]
    if k == "ge":
        return ca.MX(rel[1]) >= rel[2]
    if k == "between":
        return rel[1] <= (ca.MX(rel[2]) <= rel[3])
    raise KeyError(k)


class Real:
    pass


# guesses: time expressions (both backends)
def g_lin(m, t):
    return 0.3 + 0.5 * t


def g_sin(m, t):
    return m.sin(1.1 * t) + 0.2 * t


GUESS = {"lin": g_lin, "sin": g_sin}


def guess_table(n, cols, which=0):
    """n x cols table of pairwise distinct numbers"""
    return np.array([[0.11 + 0.13 * r + 0.07 * c + 0.011 * r * c + 0.5 * which for c in range(cols)] for r in range(n)])


def typed_value(v, kind):
    """the same number in the argument types users pass"""
    import casadi as ca
    if kind == "float": return float(v)
    if kind == "int": return int(v)
    if kind == "np0d": return np.array(float(v))
    if kind == "npscalar": return np.float64(v)
    if kind == "np1": return np.array([float(v)])
    if kind == "np11": return np.array([[float(v)]])
    if kind == "dm": return ca.DM(float(v))
    if kind == "list": return [float(v)]
    raise KeyError(kind)


def target_sym(s, target):
    return {"T": s["T"], "t0": s["t0"]}.get(target, s.get(target))


def apply_init(st, s, d, ent):
    """one public set_initial call described by ent = [target, form, value]"""
    import casadi as ca
    target, form, val = ent
    sym = target_sym(s, target)
    n = sym.numel()
    N = d["N"]
    if form == "const":
        v = val
    elif form.startswith("const_"):
        v = typed_value(val, form[len("const_"):])      # the same constant as a python int, numpy scalar, 0-d array, DM
    elif form == "vec":
        v = ca.DM(np.array(val, dtype=float).reshape(sym.shape, order="F"))
    elif form == "arrN":
        v = guess_table(n, N, val)
    elif form == "arrN1":
        v = guess_table(n, N + 1, val)
    elif form == "np1dN":
        v = guess_table(1, N, val).reshape(-1)
    elif form == "np1dN1":
        v = guess_table(1, N + 1, val).reshape(-1)
    elif form == "dmrowN1":
        v = ca.DM(guess_table(1, N + 1, val))
    elif form == "expr":
        # same shape as the target: element i is g(t)*(1+0.5 i)
        g = GUESS[val](CA, s["t"])
        v = g if n == 1 else ca.reshape(ca.vertcat(*[g * (1 + 0.5 * i) for i in range(n)]), sym.shape[0], sym.shape[1])
    else:
        raise KeyError(form)
    st.set_initial(sym, v)


def declare(d, ocp=None, stage=None, solver=True, method=True, with_cons=True, with_obj=True, const_params=False):
    """Declare the case `d` through rockit's public API.  Returns a Real record.

    If `stage` is given the content is declared on that stage (multi-stage use)."""
    import rockit, casadi as ca
    r = Real()
    r.d = d
    hz = d["horizon"]
    sc = d.get("scales", {})
    pv0 = d.get("pvals", {})
    if const_params and hz in ("Tparam", "t0param"):
        # the same OCP written with the numbers
        d = dict(d)
        if hz == "Tparam": d["TT"] = pv0.get("TT", d["TT"])
        if hz == "t0param": d["T0"] = pv0.get("T0", d["T0"])
        d["horizon"] = hz = "fixed"
        r.d_const = d
    if ocp is None:
        t0arg = rockit.FreeTime(d["T0"] if d.get("t0guess") is None else d["t0guess"]) if hz in ("t0free", "bothfree") else d["T0"]
        Targ = rockit.FreeTime(d["TT"] if d.get("Tguess") is None else d["Tguess"]) if hz in ("Tfree", "bothfree") else d["TT"]
        ocp = rockit.Ocp(t0=t0arg, T=Targ)
        st = ocp
    else:
        st = stage
    r.ocp = ocp
    r.st = st
    s = {}
    r.sym = s
    def scl(key, shape=None):
        v = sc.get(key, 1)
        if isinstance(v, (list, tuple)):
            v = ca.DM(np.array(v, dtype=float).reshape(shape, order="F"))
        return v
    for name, (rr, cc) in state_shapes(d):
        s[name] = st.state(rr, cc, scale=scl(name, (rr, cc)))
    if d["control"] != "none":
        s["u"] = st.control(nu_of(d), 1, scale=sc.get("u", 1))
    if d["alg"]:
        s["z"] = st.algebraic(scale=sc.get("z", 1))
    if d["pg"] == "scalar":
        s["pg"] = ca.MX(ca.DM(pv0.get("pg", PARAM_VALUES["pg"]))) if const_params else st.parameter()
    elif d["pg"] == "mat":
        s["pg"] = ca.MX(ca.DM(np.array(pv0.get("pgm", pgm_value())))) if const_params else st.parameter(2, 2)
    if d["pc"]:
        s["pc"] = st.parameter(grid="control", include_last=(d["pc"] == "control+"))
    if d["pc"] == "both":
        s["pcq"] = st.parameter(grid="control", include_last=True)
    if d["vg"]:
        s["vg"] = st.variable(scale=sc.get("vg", 1))
    if d["vc"]:
        s["vc"] = st.variable(grid="control", include_last=(d["vc"] == "control+"), scale=sc.get("vc", 1))
    if d["vc"] == "both":
        s["vcq"] = st.variable(grid="control", include_last=True, scale=sc.get("vc", 1))
    if d["vc"] == "two":
        s["vc2"] = st.variable(grid="control", scale=sc.get("vc", 1))      # a second per-interval variable of the SAME kind
    if hz == "Tvar":
        s["Tv"] = st.variable()
        st.set_T(s["Tv"])
        st.set_initial(s["Tv"], d["TT"] if d.get("Tguess") is None else d["Tguess"])
    if hz == "Tparam":
        s["Tp"] = st.parameter()
        st.set_T(s["Tp"])
    if hz == "t0param":
        s["t0p"] = st.parameter()
        st.set_t0(s["t0p"])
    s["t"] = st.t; s["T"] = st.T; s["t0"] = st.t0; s["tf"] = st.tf
    s["DT"] = st.DT; s["DT_control"] = st.DT_control
    # dynamics
    f = rhs(CA, s, d)
    names = [n for n, _ in state_shapes(d)]
    setter = st.set_next if d["intg"] == "set_next" else st.set_der
    lhs = None
    if d.get("concat") and len(names) > 1 and not any(k.startswith("der_") for k in sc):
        # one call on a "simple concatenation of states"
        if all(s[n].shape[1] == 1 for n in names):
            lhs = ca.vertcat(*[s[n] for n in names]); rhs_ = ca.vertcat(*[ca.MX(f[n]) for n in names])
        elif all(s[n].shape[0] == s[names[0]].shape[0] for n in names):
            lhs = ca.horzcat(*[s[n] for n in names]); rhs_ = ca.horzcat(*[ca.MX(f[n]) for n in names])
    if lhs is not None:
        setter(lhs, rhs_)
    else:
        if d.get("redeclare") and d["intg"] != "set_next":
            # a draft of the model declared first (other right-hand side, its own derivative scale); the final
            # declaration below replaces it completely - a final call without scale= means derivative scale 1
            for name in names:
                st.set_der(s[name], 0.5 * f[name], scale=7.0)
        for name in (list(reversed(names)) if d.get("der_order") == "reverse" else names):
            if d["intg"] == "set_next":
                st.set_next(s[name], f[name])
            elif d.get("redeclare") and ("der_" + name) not in sc:
                st.set_der(s[name], f[name])
            else:
                st.set_der(s[name], f[name], scale=scl("der_" + name, s[name].shape))
    if d["alg"]:
        st.add_alg(alg(CA, s, d), scale=sc.get("alg", 1))
    if d.get("quad"):
        # a quadrature state declared by the user (usable in constraints like any state)
        s["q"] = st.state(quad=True)
        st.set_der(s["q"], quad_integrand(CA, s, d))
    # parameter values
    pv = d.get("pvals", {})
    if const_params:
        pass
    elif d["pg"] == "scalar":
        st.set_value(s["pg"], typed_value(pv.get("pg", PARAM_VALUES["pg"]), pv.get("pg_type", "float")))
    elif d["pg"] == "mat":
        st.set_value(s["pg"], np.array(pv.get("pgm", pgm_value())))
    if d["pc"]:
        st.set_value(s["pc"], np.array(pv.get("pc", pc_table(d))).reshape(1, -1))
    if d["pc"] == "both":
        st.set_value(s["pcq"], pc_table(d, "pcq"))
    if hz == "Tparam":
        st.set_value(s["Tp"], pv.get("TT", d["TT"]))
    if hz == "t0param":
        st.set_value(s["t0p"], pv.get("T0", d["T0"]))
    pt = RealPt(st, s)
    r.pt = pt
    r.cons_expr = []
    if with_cons:
        if d.get("cleared"):
            # a draft constraint set, dropped again through the public clear_constraints() before the final one is declared
            x_first = s[state_shapes(d)[0][0]]
            st.subject_to(x_first <= 5)
            st.subject_to(st.at_tf(x_first) >= -4)
            st.clear_constraints()
        for c in d["cons"]:
            rel = CONS[c["c"]](CA, pt, d)
            e = apply_rel(rel)
            kw = {}
            if c.get("grid") is not None:
                kw["grid"] = c["grid"]
            if not c.get("include_first", True):
                kw["include_first"] = False
            if not c.get("include_last", True):
                kw["include_last"] = False
            if c.get("scale", 1) != 1:
                kw["scale"] = c["scale"]
            st.subject_to(e, **kw)
            r.cons_expr.append(e)
    if with_obj:
        for o in d["obj"]:
            st.add_objective(OBJS[o](CA, pt, d))
    for ent in d.get("init", []):
        apply_init(st, s, d, ent)
    if solver:
        ocp.solver("ipopt", {"ipopt.print_level": 0, "print_time": False, "ipopt.sb": "yes"})
    if method is True:
        st.method(make_method(d))
    elif method:
        st.method(method)        # a method object supplied by the caller (possibly given to other stages too)
    return r

"""Explorers: (a) deviation-bounded product enumeration, (b) depth-bounded history enumeration,
and the worker pool that executes every enumerated state on the real implementation."""
import itertools, json, hashlib, os, signal, time, traceback, importlib
import multiprocessing as mp


def deviations(dims, k, base=None, forbid=None):
    """Enumerate every assignment with at most k departures from the defaults.

    dims: ordered dict name -> [default, alt1, alt2, ...].  Yields (assignment, deviated_names),
    fewest deviations first (so the first counterexample is the smallest)."""
    names = list(dims.keys())
    for nd in range(k + 1):
        for combo in itertools.combinations(names, nd):
            alts = [dims[n][1:] for n in combo]
            for choice in itertools.product(*alts):
                a = {n: dims[n][0] for n in names}
                for n, v in zip(combo, choice):
                    a[n] = v
                if base:
                    b = dict(base); b.update(a); a = b
                if forbid and forbid(a):
                    continue
                yield a, list(combo)


def histories(alphabet, depth):
    """Every sequence over `alphabet` of length 0..depth, shortest first."""
    for n in range(depth + 1):
        for h in itertools.product(alphabet, repeat=n):
            yield list(h)


def sha(obj):
    return hashlib.sha1(json.dumps(obj, sort_keys=True, default=str).encode()).hexdigest()[:16]


class CaseTimeout(BaseException):
    """Raised by the per-case alarm.  Deliberately NOT an Exception: the alarm fires inside whatever frame happens to
    run (usually library code), and the oracles' `except Exception` clauses - which turn an exception raised by the library
    into a violation - must never see it.  On a heavily loaded machine a swallowed alarm was reported as
    `exception:<random rockit frame>` (DESIGN 9.24); a timed-out case is a cap, never a verdict."""


_fired = [False]
_poisoned = [False]        # a case of this worker timed out: interrupted library / cache state may linger in the process


def _alarm(signum, frame):
    _fired[0] = True       # the library has bare `except:` clauses that can swallow the exception: remember that it fired
    raise CaseTimeout()


_mod = None


def _init(modname):
    global _mod
    from .common import setup_paths, silence_fds
    setup_paths()
    silence_fds()
    _linecov()
    _mod = importlib.import_module(modname)
    signal.signal(signal.SIGALRM, _alarm)


def _linecov():
    """Diagnostic only (tools/linecov.sh): with MC_LINECOV=<dir> every worker records which lines of rockit it executes,
    so that library code no enumerated state ever reaches (a hole in an alphabet) can be listed.  Never set by a check."""
    d = os.environ.get("MC_LINECOV")
    if not d:
        return
    import coverage
    from multiprocessing import util
    from .common import REPO
    cov = coverage.Coverage(data_file=os.path.join(d, ".coverage"), data_suffix=True, include=[os.path.join(REPO, "rockit", "*")])
    cov.start()

    def _save():
        cov.stop(); cov.save()
    util.Finalize(None, _save, exitpriority=100)


def _run(case):
    if _poisoned[0]:
        return dict(retry=True, case=case)          # handed back; run_all gives it to a fresh worker process
    t = time.time()
    limit = int(case.get("_timeout", 60)) if isinstance(case, dict) else 60
    limit = int(limit * float(os.environ.get("VERIF_TIMEOUT_FACTOR", "5")))     # generous: the limit only guards against non-termination
    _fired[0] = False
    signal.alarm(limit)
    try:
        out = _mod.run_case(case)
        out.setdefault("violations", [])
        if _fired[0]:
            out = dict(violations=[], cap="timeout %ds (alarm swallowed inside the library; result discarded)" % limit)
    except CaseTimeout:
        out = dict(violations=[], cap="timeout %ds" % limit)
    except Exception as e:
        if _fired[0]:       # the alarm surfaced as another exception type (e.g. SystemError out of a C extension)
            out = dict(violations=[], cap="timeout %ds" % limit)
        else:
            out = dict(violations=[], harness_error="%s: %s\n%s" % (type(e).__name__, e, traceback.format_exc()[-1500:]))
    finally:
        signal.alarm(0)
    if _fired[0]:
        _poisoned[0] = True
    out["wall"] = time.time() - t
    out["case"] = case
    return out


def run_all(modname, cases, workers=None, chunksize=1):
    workers = workers or int(os.environ.get("VERIF_WORKERS", "16"))
    ctx = mp.get_context("fork")
    pending = list(cases)
    for rnd in range(8):
        if not pending:
            return
        retry = []
        with ctx.Pool(max(1, min(workers, len(pending))), initializer=_init, initargs=(modname,), maxtasksperchild=400) as pool:
            for out in pool.imap_unordered(_run, pending, chunksize=chunksize):
                if out.get("retry"):
                    retry.append(out["case"])     # its worker had been interrupted by a timeout before
                else:
                    yield out
        pending = retry
    for c in pending:
        yield dict(violations=[], cap="no clean worker process after 8 rounds of timeouts", case=c, wall=0.0)


def run_inline(modname, case):
    """single case in this process (replay)"""
    from .common import setup_paths, quiet
    setup_paths()
    mod = importlib.import_module(modname)
    with quiet():
        out = mod.run_case(case)
    out["case"] = case
    return out

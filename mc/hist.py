"""History explorer pieces: operations applied to a live Ocp in lock-step with the specification,
a solver spy (what the solver receives at solve time), observations and their comparison."""
import copy, json
import numpy as np
from . import program as P, nlp as NL, core
from .common import seed as get_seed

SOLVER_OPTS = {
    "A": {"ipopt.print_level": 0, "print_time": False, "ipopt.sb": "yes", "ipopt.max_iter": 0, "ipopt.tol": 1e-6},
    # deliberately a different key set than A (options of a superseded call must not linger)
    "B": {"ipopt.print_level": 0, "print_time": False, "ipopt.max_iter": 0, "ipopt.acceptable_tol": 1e-4, "ipopt.mu_strategy": "adaptive"},
}

# ------------------------------------------------------------------------------------------
# solver spy: wraps casadi.Opti.solver / solve / solve_limited in this process


class Spy:
    def __init__(self):
        self.calls = []
        self.solver_of = {}
        self.installed = False
        self.capture = True

    def install(self):
        if self.installed:
            return
        import casadi as ca
        spy = self
        o_solver, o_solve, o_lim = ca.Opti.solver, ca.Opti.solve, ca.Opti.solve_limited

        def solver(self_, *a, **k):
            # kept on the instance itself (ids of collected Opti objects are reused)
            self_._verif_solver = (a[0] if a else None, copy.deepcopy(a[1]) if len(a) > 1 else {}, copy.deepcopy(a[2]) if len(a) > 2 else {})
            return o_solver(self_, *a, **k)

        def solve(self_, *a, **k):
            spy.record(self_, "solve")
            return o_solve(self_, *a, **k)

        def solve_limited(self_, *a, **k):
            spy.record(self_, "solve_limited")
            return o_lim(self_, *a, **k)
        ca.Opti.solver = solver
        ca.Opti.solve = solve
        ca.Opti.solve_limited = solve_limited
        self.installed = True

    def record(self, opti, how):
        rec = dict(how=how, opti=opti, solver=getattr(opti, "_verif_solver", None))
        if self.capture:
            rec["obs"] = snapshot(opti)
        self.calls.append(rec)

    def reset(self):
        self.calls = []


SPY = Spy()


def snapshot(opti, npts=4):
    """the NLP as the solver sees it: canonical rows and objective over a fixed alphabet, start point, parameters"""
    import casadi as ca
    nx = opti.x.numel()
    F = ca.Function("nlp", [opti.x, opti.p], [opti.f, opti.g, opti.lbg, opti.ubg])
    x0 = np.array(opti.debug.value(opti.x, opti.initial())).reshape(-1) if nx else np.zeros(0)
    p0 = np.array(opti.debug.value(opti.p, opti.initial())).reshape(-1) if opti.p.numel() else np.zeros(0)
    pts = NL.alphabet(nx, seed=get_seed(), full=False)[:2] + [x0]
    fs = []; G = []; LB = []; UB = []
    for w in pts:
        f, g, lb, ub = F(w, p0)
        fs.append(float(f)); G.append(np.array(g).reshape(-1)); LB.append(np.array(lb).reshape(-1)); UB.append(np.array(ub).reshape(-1))
    G, LB, UB = np.array(G), np.array(LB), np.array(UB)
    rows = []
    for i in range(G.shape[1]):
        lb, ub = LB[:, i], UB[:, i]
        if np.all(np.isfinite(lb)) and np.all(np.isfinite(ub)) and np.allclose(lb, ub, rtol=0, atol=1e-13):
            v = G[:, i] - lb
            if v[np.argmax(np.abs(v) > 1e-12)] < 0:
                v = -v
            rows.append(("eq", tuple(np.round(v, 8))))
        else:
            if np.all(np.isfinite(lb)): rows.append(("ineq", tuple(np.round(G[:, i] - lb, 8))))
            if np.all(np.isfinite(ub)): rows.append(("ineq", tuple(np.round(ub - G[:, i], 8))))
    rows.sort()
    return dict(nx=nx, ng=G.shape[1], f=[round(v, 8) for v in fs], rows=rows, x0=[round(float(v), 9) for v in x0], p=[round(float(v), 10) for v in p0])


def obs_equal(a, b):
    """returns list of differing aspects"""
    diff = []
    if a["nx"] != b["nx"]: diff.append("nvars")
    if a["ng"] != b["ng"]: diff.append("nrows")
    if not NL.close(np.array(a["f"]), np.array(b["f"]), 1e-7): diff.append("objective")
    if a["nx"] == b["nx"] and not NL.close(np.array(a["x0"]), np.array(b["x0"]), 1e-8): diff.append("x0")
    if len(a["p"]) != len(b["p"]) or not NL.close(np.array(a["p"]), np.array(b["p"]), 1e-9): diff.append("p")
    if "nrows" not in diff:
        ra, rb = list(a["rows"]), list(b["rows"])
        if len(ra) != len(rb):
            diff.append("rows")
        else:
            used = [False] * len(rb)
            for k, v in ra:
                hit = False
                for j, (k2, v2) in enumerate(rb):
                    if not used[j] and k == k2 and NL.close(np.array(v), np.array(v2), 1e-6):
                        used[j] = True; hit = True; break
                if not hit:
                    diff.append("rows"); break
    if a.get("solver") != b.get("solver"):
        diff.append("solver")
    return diff


# ------------------------------------------------------------------------------------------
# operations

METHODS = {
    "MS2": dict(method="MS", N=2, M=1, intg="rk", grid="uniform"),
    "DC2": dict(method="DC", N=2, M=1, degree=2, scheme="radau", grid="uniform"),
    "SS3": dict(method="SS", N=3, M=1, intg="rk", grid="uniform"),
    "MS3g": dict(method="MS", N=3, M=2, intg="rk", grid="geom"),
}
PVALS = {"pg": {"a": 0.45, "b": -0.8, "c": 1.3}, "pc": {"A": 0, "B": 1}}


def pc_value(d, which):
    n = d["N"] + (1 if d["pc"] == "control+" else 0)
    if which == 0:
        return [0.3 + 0.27 * k + 0.05 * k * k for k in range(n)]
    return [1.1 - 0.2 * k + 0.03 * k * k for k in range(n)]


def apply_ref(d, op):
    """update the specification (the boring model of what the user has declared)"""
    k = op[0]
    if k == "subject_to":
        d["cons"].append(op[1])
    elif k == "clear_constraints":
        d["cons"] = []
    elif k == "add_objective":
        d["obj"].append(op[1])
    elif k == "method":
        d.update(METHODS[op[1]])
    elif k == "solver":
        d["solver"] = op[1]
    elif k == "set_der":
        d["rhs"] = op[1]
    elif k == "set_T":
        d["TT"] = op[1]
    elif k == "set_t0":
        d["T0"] = op[1]
    elif k == "set_value":
        if op[1] == "pg":
            d["pvals"]["pg"] = PVALS["pg"][op[2]]
        elif op[1] == "pc":
            d["pvals"]["pc_which"] = PVALS["pc"][op[2]]
        elif op[1] == "pcq":
            d["pvals"]["pcq"] = op[2]
    elif k == "set_value_cat":
        # one set_value call on vertcat(pg, <horizon parameter>)
        d["pvals"]["pg"] = op[1]
        d["pvals"]["TT"] = op[2]
    elif k == "set_initial":
        d["init"].append([op[1], op[2], op[3]])
    elif k in ("query", "solve", "save_load", "sol_query"):
        pass
    else:
        raise KeyError(k)
    if "pc_which" in d["pvals"] and d["pc"]:
        d["pvals"]["pc"] = pc_value(d, d["pvals"]["pc_which"])


def apply_real(r, d, op):
    """exactly one public rockit call (d is the specification *before* the op)"""
    import casadi as ca
    k = op[0]
    ocp, st, s = r.ocp, r.st, r.sym
    if k == "subject_to":
        c = op[1]
        rel = P.CONS[c["c"]](P.CA, r.pt, d)
        kw = {}
        if c.get("grid") is not None: kw["grid"] = c["grid"]
        if not c.get("include_first", True): kw["include_first"] = False
        if not c.get("include_last", True): kw["include_last"] = False
        st.subject_to(P.apply_rel(rel), **kw)
    elif k == "clear_constraints":
        st.clear_constraints()
    elif k == "add_objective":
        st.add_objective(P.OBJS[op[1]](P.CA, r.pt, d))
    elif k == "method":
        dd = dict(d); dd.update(METHODS[op[1]])
        st.method(P.make_method(dd))
    elif k == "solver":
        # the user keeps ONE options dict, edits it in place and declares the solver again with it
        r.user_opts.clear(); r.user_opts.update(SOLVER_OPTS[op[1]])
        ocp.solver("ipopt", r.user_opts)
    elif k == "set_der":
        # the dynamics declared again, with another right-hand side (one set_der call per state)
        dd = dict(d); dd["rhs"] = op[1]
        f = P.rhs(P.CA, s, dd)
        for name, _ in P.state_shapes(dd):
            st.set_der(s[name], f[name])
    elif k == "set_T":
        st.set_T(op[1])
    elif k == "set_t0":
        st.set_t0(op[1])
    elif k == "set_value":
        if op[1] == "pg":
            st.set_value(s["pg"], PVALS["pg"][op[2]])
        elif op[1] == "pcq":
            st.set_value(s["pcq"], op[2])        # one scalar for the include_last parameter (next to a plain per-interval one)
        else:
            dd = dict(d)
            st.set_value(s["pc"], np.array(pc_value(d, PVALS["pc"][op[2]])).reshape(1, -1))
    elif k == "set_value_cat":
        st.set_value(ca.vertcat(s["pg"], s["Tp"]), np.array([op[1], op[2]]))
    elif k == "set_initial":
        P.apply_init(st, s, d, [op[1], op[2], op[3]])
    elif k == "query":
        if op[1] == "sample":
            st.sample(s["x"], grid="control")
        elif op[1] == "value":
            st.value(st.T)
        elif op[1] == "jacobian":
            ocp.jacobian()
        elif op[1] == "sample_i":
            st.sample(s["x"], grid="integrator")
    elif k == "solve":
        r.last_sol = ocp.solve_limited()
    elif k == "sol_query":
        # read the most recent solution object again (it may predate later edits)
        if getattr(r, "last_sol", None) is not None:
            r.last_sol.sample(s["x"], grid="control")
    else:
        raise KeyError(k)


def declare_spec(d):
    """fresh OCP from a specification (solver from the spec)"""
    r = P.declare(d, solver=False)
    r.user_opts = dict(SOLVER_OPTS[d.get("solver", "A")])
    r.ocp.solver("ipopt", r.user_opts)
    # P.declare sets the method after the solver in the fresh object; order is irrelevant for a fresh object
    return r


def observe(r):
    """the public observation op: solve_limited (zero iterations) under the spy"""
    SPY.install()
    SPY.reset()
    r.ocp.solve_limited()
    calls = SPY.calls
    SPY.calls = []
    if len(calls) != 1:
        return dict(error="%d solver calls" % len(calls))
    obs = calls[0]["obs"]
    sv = calls[0]["solver"]
    obs["solver"] = json.dumps([sv[0], sv[1], sv[2]], sort_keys=True, default=str) if sv else None
    return obs


def declared_state(r):
    """what the user declared, as far as public accessors show it"""
    ocp = r.ocp
    return dict(nstates=len(ocp.states), nx=ocp.x.numel(), nu=ocp.u.numel(), nv=sum(len(v) for v in ocp.variables.values()),
                np=sum(len(v) for v in ocp.parameters.values()), obj=str(ocp.objective)[:200],
                Tkind=type(ocp._T).__name__, t0kind=type(ocp._t0).__name__)


_fresh_cache = {}


def fresh_observation(d):
    key = json.dumps(d, sort_keys=True, default=str)
    if key in _fresh_cache:
        return _fresh_cache[key]
    SPY.install()
    try:
        r = declare_spec(copy.deepcopy(d))
        obs = observe(r)
    except Exception as e:
        import sys
        obs = dict(error="%s: %s" % (type(e).__name__, str(e)[:200]), frame=core.rockit_frame(sys.exc_info()[2]))
    if len(_fresh_cache) > 3000:
        _fresh_cache.clear()
    _fresh_cache[key] = obs
    return obs


def run_history(base, ops, check_idempotent=True):
    """Apply ops to a live object; return dict(violations, ...).  No implementation-side dedup."""
    import sys
    SPY.install()
    d = copy.deepcopy(base)
    d.setdefault("solver", "A")
    r = declare_spec(copy.deepcopy(d))
    vios = []
    rejected = []
    transcribed = False
    decl0 = None
    for i, op in enumerate(ops):
        before = declared_state(r)
        try:
            apply_real(r, d, op)
        except Exception as e:
            fr = core.rockit_frame(sys.exc_info()[2])
            if fr is None and not isinstance(e, (RuntimeError, AssertionError)):
                raise
            rejected.append((i, op, "%s: %s" % (type(e).__name__, str(e)[:160]), fr))
            # a query / solve that raises on a well-posed specification is itself an observation
            if op[0] in ("query", "solve"):
                fresh_now = fresh_observation(d)
                if "error" in fresh_now:
                    continue      # the current specification is rejected by a fresh Ocp as well (e.g. collocation-point constraints under a shooting method)
                vios.append(dict(sig="exception:%s:%s" % (op[0], fr or type(e).__name__), detail="op %d %s raised %s: %s" % (i, op, type(e).__name__, str(e)[:200]), ops_prefix=i + 1))
                return dict(violations=vios, rejected=len(rejected), final=d)
            continue
        if op[0] in ("query", "solve"):
            after = declared_state(r)
            if after != before:
                vios.append(dict(sig="declared-state-changed:%s" % op[0], detail="before %s after %s" % (before, after)))
        apply_ref(d, op)
    try:
        obs = observe(r)
    except Exception as e:
        fr = core.rockit_frame(sys.exc_info()[2])
        if fr is None and not isinstance(e, (RuntimeError, AssertionError)):
            raise
        obs = dict(error="%s: %s" % (type(e).__name__, str(e)[:200]), frame=fr)
    fresh = fresh_observation(d)
    if "error" in obs and "error" not in fresh:
        vios.append(dict(sig="exception:solve:%s" % (obs.get("frame") or "?"), detail="next solve raises %s; a fresh OCP with the final specification solves" % obs["error"]))
    elif "error" not in obs and "error" in fresh:
        vios.append(dict(sig="accepted:fresh-rejects", detail="fresh OCP with the final specification raises %s; the edited object solves" % fresh["error"]))
    elif "error" not in obs:
        diff = obs_equal(obs, fresh)
        if diff:
            vios.append(dict(sig="stale:" + "+".join(diff), detail="next solve differs from a fresh OCP with the final specification in: %s (f %s vs %s; p %s vs %s)" % (diff, obs["f"][:2], fresh["f"][:2], obs["p"][:4], fresh["p"][:4])))
        elif check_idempotent:
            try:
                obs2 = observe(r)
                d2 = obs_equal(obs, obs2) if "error" not in obs2 else ["error"]
            except Exception as e:
                d2 = ["exception %s" % type(e).__name__]
            if d2:
                vios.append(dict(sig="not-idempotent:" + "+".join(d2), detail="a second solve sees a different NLP: %s" % d2))
    return dict(violations=vios, rejected=len(rejected), final=d, obs=obs if "error" not in obs else None)

"""One explored state of the product space: declare the case on the real rockit, extract the NLP,
label it through public read-backs, and compare with the reference transcription."""
import traceback
import numpy as np
from . import program as P
from . import nlp as NL
from . import reftrans as RT
from .common import seed as get_seed


def readbacks(r):
    """public read-backs used as labelling of the decision vector"""
    import casadi as ca
    st, s, d = r.st, r.sym, r.d
    x = ca.vertcat(*[ca.vec(s[name]) for name, _ in P.state_shapes(d)])
    rb = {}
    tcs, X = st.sample(x, grid="control")
    rb["tc_time"] = tcs
    rb["X"] = X
    rb["tc"] = st.sample(st.t, grid="control")[1]
    tis, Xi = st.sample(x, grid="integrator")
    rb["ti"] = tis
    rb["Xi"] = Xi
    if d["control"] != "none":
        rb["U"] = st.sample(s["u"], grid="control-")[1]
    if d["method"] == "DC":
        trs, Xr = st.sample(x, grid="integrator_roots")
        rb["tr"] = trs
        rb["Xr"] = Xr
        if d["alg"]:
            rb["Zr"] = st.sample(s["z"], grid="integrator_roots")[1]
    if d["vg"]:
        rb["vg"] = st.value(s["vg"])
    if d["vc"]:
        rb["vc"] = st.sample(s["vc"], grid="control" if d["vc"] == "control+" else "control-")[1]
    if d["pc"]:
        rb["pc"] = st.sample(s["pc"], grid="control" if d["pc"] == "control+" else "control-")[1]
    if d["pc"] == "both":
        rb["pcq"] = st.sample(s["pcq"], grid="control")[1]
    if d["vc"] == "both":
        rb["vcq"] = st.sample(s["vcq"], grid="control")[1]
    if d["vc"] == "two":
        rb["vc2"] = st.sample(s["vc2"], grid="control-")[1]
    if d["pg"]:
        rb["pg"] = st.value(s["pg"])
    rb["DTc"] = st.sample(st.DT_control, grid="control")[1]
    rb["DTi"] = st.sample(st.DT, grid="integrator")[1]
    rb["DTci"] = st.sample(st.DT_control, grid="integrator")[1]
    rb["T"] = st.value(st.T)
    rb["t0"] = st.value(st.t0)
    rb["tf"] = st.value(st.tf)
    return rb


class CaseResult:
    def __init__(self, d):
        self.d = d
        self.mismatches = []   # list of dict(origin, cls, info)
        self.exception = None
        self.n_rows = 0
        self.n_points = 0
        self.nw = 0
        self.row_fps = None
        self.rejected = False

    def add(self, origin, cls, info=""):
        self.mismatches.append(dict(origin=origin, cls=cls, info=str(info)[:300]))

    def to_json(self):
        return dict(d=self.d, mismatches=self.mismatches, exception=self.exception, n_rows=self.n_rows,
                    n_points=self.n_points, nw=self.nw, rejected=self.rejected)


def rockit_frame(tb):
    """innermost traceback frame located in the rockit package (attribution of exceptions)"""
    fr = None
    for f in traceback.extract_tb(tb):
        if "/rockit/" in f.filename:
            fr = "%s:%s" % (f.filename.split("/rockit/")[-1], f.name)
    return fr


def time_coords(nlp, base, names=("tc", "T", "t0")):
    """indices of decision coordinates on which the sampled times depend (unit perturbation), plus
    *unlabelled* coordinates: those no public read-back depends on (auxiliary grid variables such as
    the local interval lengths of a grid that is also localized in t0).  Rows that involve only such
    coordinates can only restrict the time grid; C06 analyses their solution set."""
    q0 = nlp.read(base)
    idx = []
    for i in range(nlp.nx):
        w = base.copy(); w[i] += 0.31
        q = nlp.read(w)
        if any(not np.allclose(q[n], q0[n], rtol=0, atol=1e-12) for n in names if n in q0):
            idx.append(i)
        elif all(np.allclose(q[n], q0[n], rtol=0, atol=1e-12, equal_nan=True) for n in q0):
            idx.append(i)
    return idx


def der_scales_of(d):
    """declared derivative scale per flattened state component"""
    out = []
    for name, (r, c) in P.state_shapes(d):
        v = d.get("scales", {}).get("der_" + name, 1)
        out += list(np.array(v, dtype=float).reshape(-1)) if isinstance(v, (list, tuple)) else [float(v)] * (r * c)
    return out


def compare_case(d, want=("rows", "obj"), full_alphabet=True, return_rows=False):
    """Run one case.  Returns CaseResult.  Exceptions raised inside rockit are observations."""
    import casadi as ca
    res = CaseResult(d)
    why_not = RT.placeable(d)
    try:
        r = P.declare(d)
        rb = readbacks(r)
        nlp = NL.Nlp(r.ocp, rb)
    except Exception as e:
        import sys
        fr = rockit_frame(sys.exc_info()[2])
        if fr is None and "casadi" not in str(type(e)).lower() and not isinstance(e, RuntimeError):
            raise
        if why_not is not None:
            res.rejected = True      # ill-posed for this method and rejected: as the statement demands
            return res
        res.exception = dict(type=type(e).__name__, msg=str(e)[:300], frame=fr)
        return res
    if why_not is not None:
        res.add("reject", "accepted", why_not)
        return res
    sd = get_seed()
    # points range over the decision vector AND the inactive symbols the read-backs mention
    epts = NL.alphabet(nlp.nx + nlp.n_extra, seed=sd, full=full_alphabet)
    pts = [e[:nlp.nx] for e in epts]
    exs = [e[nlp.nx:] for e in epts]
    res.nw = nlp.nx
    res.n_points = len(pts)
    # every per-interval / global decision quantity the user declared is its own coordinate of the decision vector:
    # the read-back of controls and variables has full row rank in the decision vector (and the inactive extras)
    if full_alphabet:
        q0_ = nlp.read(pts[0], extra=exs[0])
        lk = [k for k in ("U", "vg", "vc", "vcq", "vc2") if k in q0_]
        if lk:
            base_ = np.concatenate([np.asarray(q0_[k], dtype=float).reshape(-1) for k in lk])
            cols = []
            nall = nlp.nx + nlp.n_extra
            for i in range(nall):
                e_ = np.concatenate([pts[0], exs[0]]).astype(float); e_[i] += 1.0
                qi_ = nlp.read(e_[:nlp.nx], extra=e_[nlp.nx:])
                cols.append(np.concatenate([np.asarray(qi_[k], dtype=float).reshape(-1) for k in lk]) - base_)
            Jl = np.array(cols).T if cols else np.zeros((base_.size, 0))
            rk = int(np.linalg.matrix_rank(Jl, tol=1e-9)) if Jl.size else 0
            if rk < base_.size:
                res.add("dyn:labels", "value", "the %d declared entries of %s span only %d independent decision coordinates" % (base_.size, lk, rk))
    res.n_extra = nlp.n_extra
    f_real, rows_real = NL.canon_rows(nlp, pts)
    res.n_rows = len(rows_real)
    # reference
    ref_rows = None
    f_ref = []
    unplace = None
    trajs = []
    for w, ex in zip(pts, exs):
        q = nlp.read(w, extra=ex)
        try:
            tr = RT.RefTraj(d, q)
            rr = tr.dyn_rows() + tr.con_rows()
            fo = tr.objective()
        except RT.Unplaceable as e:
            unplace = str(e)
            break
        trajs.append((tr, q))
        f_ref.append(fo)
        if ref_rows is None:
            ref_rows = [dict(origin=o, kind=k, fp=[v]) for o, k, v in rr]
        else:
            assert len(rr) == len(ref_rows)
            for a, (o, k, v) in zip(ref_rows, rr):
                a["fp"].append(v)
    if unplace is not None:
        # the reference says: this specification cannot be placed -> rejection expected
        res.add("reject", "accepted", unplace)
        return res
    for a in ref_rows:
        a["fp"] = np.array(a["fp"])
    missing, extra = NL.match_rows(rows_real, ref_rows, prop_origins=(("dyn",) if d.get("scales") else ()))
    if d.get("scales") and d["method"] == "DC":
        for o, msg in NL.der_scale_mismatches(rows_real, ref_rows, der_scales_of(d))[:2]:
            res.add("scale:der", "value", "%s: %s" % (o, msg))
    # classify extra rows: time-only rows belong to the grid/free-time properties
    tcoords = time_coords(nlp, pts[0])
    res.time_coords = tcoords
    for q_ in extra:
        dep = [i for i in range(nlp.nx) if full_alphabet and abs(q_["fp"][2 + i] - q_["fp"][0]) > 1e-12]
        dep_ex = [i for i in range(nlp.n_extra) if full_alphabet and abs(q_["fp"][2 + nlp.nx + i] - q_["fp"][0]) > 1e-12]
        assert not dep_ex
        q_["dep"] = dep
        q_["time_only"] = bool(dep) and all(i in tcoords for i in dep)
    for m in missing:
        res.add(m["origin"], "missing", "")
    for q_ in extra:
        if q_["time_only"]:
            continue
        res.add("extra", "extra", "g[%d] %s dep=%s" % (q_["idx"], q_["side"], q_["dep"][:8]))
    res.time_rows = [dict(kind=q_["kind"], idx=q_["idx"], side=q_["side"], dep=q_["dep"]) for q_ in extra if q_["time_only"]]
    # objective
    f_ref = np.array(f_ref)
    if not (np.all(np.isfinite(f_ref)) and all(np.all(np.isfinite(a["fp"])) for a in ref_rows)):
        raise FloatingPointError("reference produced non-finite values on the alphabet (harness problem, not an observation)")
    if not (np.all(np.isfinite(f_real)) and all(np.all(np.isfinite(a["fp"])) for a in rows_real)):
        res.add("nonfinite", "value", "the real NLP evaluates to non-finite values where the reference is finite")
    if not NL.close(f_real, f_ref, 1e-8):
        res.add("obj", "value", "real=%s ref=%s" % (f_real[:2], f_ref[:2]))
    # read-back consistency gathered while building the reference
    for tr, q in trajs[:2]:
        for o, msg in tr.notes:
            res.add(o, "value", msg)
        # time vectors
        if tr.tc_declared is not None and not NL.close(tr.tc, tr.tc_declared, 2e-5 if tr.gkind == "dense_edges" else 1e-6):
            res.add("time:control", "value", "density grid %s vs equidistributed %s" % (tr.tc, tr.tc_declared))
        if not NL.close(q["tc"].reshape(-1), tr.tc, 1e-9) or not NL.close(q["tc_time"].reshape(-1), tr.tc, 1e-9):
            res.add("time:control", "value", "sampled control grid %s vs declared %s" % (q["tc"].reshape(-1), tr.tc))
        ti_ref = np.array([t for row in tr.ti for t in row] + [tr.tc[-1]])
        if not NL.close(q["ti"].reshape(-1), ti_ref, 1e-9):
            res.add("time:integrator", "value", "sampled integrator grid %s vs %s" % (q["ti"].reshape(-1), ti_ref))
        if not NL.close(float(q["T"].reshape(-1)[0]), tr.T, 1e-9) or not NL.close(float(q["t0"].reshape(-1)[0]), tr.t0, 1e-9) or not NL.close(float(q["tf"].reshape(-1)[0]), tr.t0 + tr.T, 1e-9):
            res.add("time:horizon", "value", "value(T,t0,tf)=%s,%s,%s vs %s,%s" % (q["T"], q["t0"], q["tf"], tr.T, tr.t0))
        lens = np.diff(tr.tc)
        dtc_ref = np.concatenate([lens, lens[-1:]])
        if not NL.close(q["DTc"].reshape(-1), dtc_ref, 1e-9):
            res.add("time:DT_control", "value", "%s vs %s" % (q["DTc"].reshape(-1), dtc_ref))
        dti_ref = np.concatenate([np.repeat(lens / tr.M, tr.M), lens[-1:] / tr.M])
        if not NL.close(q["DTi"].reshape(-1), dti_ref, 1e-9):
            res.add("time:DT", "value", "%s vs %s" % (q["DTi"].reshape(-1), dti_ref))
        dtci_ref = np.concatenate([np.repeat(lens, tr.M), lens[-1:]])
        if not NL.close(q["DTci"].reshape(-1), dtci_ref, 1e-9):
            res.add("time:DT_control", "value", "on integrator grid %s vs %s" % (q["DTci"].reshape(-1), dtci_ref))
        if d["method"] == "DC":
            tr_ref = np.array([tr.ti[k][l] + (tr.tc[k + 1] - tr.tc[k]) / tr.M * tau for k in range(tr.N) for l in range(tr.M) for tau in tr.col["tau"]])
            if not NL.close(q["tr"].reshape(-1), tr_ref, 1e-9):
                res.add("time:roots", "value", "collocation times")
        # states at nodes / integrator points (propagated by the reference's own scheme)
        if d["method"] in ("MS", "SS"):
            Xi_ref = np.column_stack([x for row in tr.Xi for x in row] + [tr.X[:, -1]])
            Xi_real = q["Xi"].reshape(tr.nx, -1, order="F")
            if not NL.close(Xi_real, Xi_ref, 1e-8):
                res.add("states:integrator", "value", "max diff %g" % np.max(np.abs(Xi_real - Xi_ref)))
            if d["method"] == "SS":
                Xr_ = q["X"].reshape(tr.nx, -1, order="F")
                if not NL.close(Xr_, tr.X, 1e-8):
                    res.add("states:ss_recursion", "value", "max diff %g" % np.max(np.abs(Xr_ - tr.X)))
        # parameters read back
        if d["pc"]:
            if not NL.close(q["pc"].reshape(-1), tr.pc, 1e-12):
                res.add("param:pc", "value", "%s vs %s" % (q["pc"].reshape(-1), tr.pc))
        if d["pc"] == "both" and not NL.close(q["pcq"].reshape(-1), tr.pcq, 1e-12):
            res.add("param:pcq", "value", "%s vs %s" % (q["pcq"].reshape(-1), tr.pcq))
        if d["pg"]:
            if not NL.close(np.asarray(q["pg"]).reshape(-1, order="F"), np.asarray(tr.pg).reshape(-1, order="F"), 1e-12):
                res.add("param:pg", "value", "")
    if return_rows:
        res.rows_real = rows_real
        res.ref_rows = ref_rows
        res.f_real = f_real
        res.f_ref = f_ref
        res.nlp = nlp
        res.pts = pts
        res.trajs = trajs
        res.real = r
    return res


LABEL_KEYS = ("X", "U", "Xi", "Xr", "Zr", "vg", "vc", "vcq", "vc2")


def label_solve(nlp, q, keys=LABEL_KEYS, base=None):
    """decision vector of `nlp` whose public read-backs equal the labelled values q (affine labelling,
    solved exactly from the enumerated basis); returns (w, max residual)"""
    keys = [k for k in keys if k in nlp.rb_names and k in q]
    ex = np.zeros(nlp.n_extra)
    stack = lambda qq: np.concatenate([np.asarray(qq[k], dtype=float).reshape(-1, order="F") for k in keys])
    w0 = np.zeros(nlp.nx) if base is None else base.copy()
    b0 = stack(nlp.read(w0, extra=ex))
    A = np.zeros((b0.size, nlp.nx))
    for i in range(nlp.nx):
        w = w0.copy(); w[i] += 1.0
        A[:, i] = stack(nlp.read(w, extra=ex)) - b0
    target = stack(q)
    dw, *_ = np.linalg.lstsq(A, target - b0, rcond=None)
    w = w0 + dw
    err = float(np.max(np.abs(stack(nlp.read(w, extra=ex)) - target))) if target.size else 0.0
    return w, err


def set_times(nlp, w, T=None, t0=None):
    """move only the coordinates that carry T / t0 so that value(T)=T, value(t0)=t0"""
    ex = np.zeros(nlp.n_extra)
    def tt(w_):
        q = nlp.read(w_, extra=ex)
        return np.array([q["T"].reshape(-1)[0], q["t0"].reshape(-1)[0]])
    b0 = tt(w)
    cols = []; idx = []
    for i in range(nlp.nx):
        w1 = w.copy(); w1[i] += 1.0
        c = tt(w1) - b0
        if np.max(np.abs(c)) > 1e-12:
            cols.append(c); idx.append(i)
    if not idx:
        return w, b0
    A = np.array(cols).T
    target = np.array([b0[0] if T is None else T, b0[1] if t0 is None else t0])
    dw, *_ = np.linalg.lstsq(A, target - b0, rcond=None)
    w2 = w.copy(); w2[idx] += dw
    return w2, tt(w2)

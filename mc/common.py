"""Process environment: import paths, stdout silencing, determinism helpers."""
import os, sys, contextlib

VERIF = os.path.dirname(os.path.dirname(os.path.abspath(__file__)))
REPO = os.environ.get("ROCKIT_REPO", "/repo")
NETWORKX_WHEEL = "/opt/veriftools/wheels/networkx-3.6.1-py3-none-any.whl"


def setup_paths():
    """rockit is imported from REPO's working tree (not from site-packages copies)."""
    if REPO not in sys.path:
        sys.path.insert(0, REPO)
    if os.path.exists(NETWORKX_WHEEL) and NETWORKX_WHEEL not in sys.path:
        sys.path.append(NETWORKX_WHEEL)


def have_networkx():
    return os.path.exists(NETWORKX_WHEEL)


_saved = {}


def silence_fds():
    """Permanently send fd 1 and 2 of this (worker) process to /dev/null.

    rockit prints debug lines; only the runner (parent) may print VIOLATION lines."""
    sys.stdout.flush(); sys.stderr.flush()
    dn = os.open(os.devnull, os.O_WRONLY)
    if "out" not in _saved:
        _saved["out"] = os.dup(1)
        _saved["err"] = os.dup(2)
    os.dup2(dn, 1)
    if not os.environ.get("VERIF_DEBUG"):
        os.dup2(dn, 2)
    os.close(dn)


@contextlib.contextmanager
def quiet():
    """Temporarily silence fd 1 (used in the parent process around rockit calls)."""
    sys.stdout.flush()
    saved = os.dup(1)
    dn = os.open(os.devnull, os.O_WRONLY)
    os.dup2(dn, 1)
    os.close(dn)
    try:
        yield
    finally:
        sys.stdout.flush()
        os.dup2(saved, 1)
        os.close(saved)


def seed():
    try:
        return int(os.environ.get("VERIF_SEED", "0"))
    except ValueError:
        return 0

"""Reference transcription (numpy only).  Written from the property statements and textbook
definitions of the schemes; it never calls rockit or CasADi."""
import math
import numpy as np
from .backends import NP
from . import program as P


class OutOfHorizon(Exception):
    pass


class Unplaceable(Exception):
    """the specification cannot be placed by this method: rejection expected"""


def placeable(d):
    """None if the method can place everything the case declares, else the reason (rejection expected)"""
    for c in d["cons"]:
        if c.get("grid") == "integrator_roots" and d["method"] != "DC":
            return "constraint on grid 'integrator_roots' under a shooting method (no collocation points)"
    if d["intg"] == "set_next":
        for o in d["obj"]:
            if o.startswith("integral") or o.startswith("int_"):
                if o != "int_control":
                    return "ocp.integral with a discrete-time model"
        for c in d["cons"]:
            if c["c"] == "intq":
                return "ocp.integral with a discrete-time model"
    if "int_T" in d["obj"]:
        return "horizon symbols inside an integrand (i.e. inside the quadrature ODE)"
    if d["alg"] and d["method"] != "DC":
        return "algebraic equations with an explicit scheme"
    return None


# ------------------------------------------------------------------------------------------
# grids

def _density_fun(name):
    return {"lin": lambda tau: 1.0 + tau, "sq": lambda tau: 0.2 + tau * tau}[name]


_norm_cache = {}


def normalized(kind, opts, N):
    """declared normalised node locations in [0,1]; None when the nodes are decision variables"""
    key = (kind, tuple(sorted((k, str(v)) for k, v in opts.items())), N)
    if key in _norm_cache:
        return _norm_cache[key]
    if kind == "uniform":
        n = [k / N for k in range(N + 1)]
    elif kind == "geom":
        g = float(opts.get("g", 2))
        r = g if opts.get("local", False) or N == 1 else g ** (1.0 / (N - 1))
        lens = [r ** k for k in range(N)]
        tot = sum(lens)
        n = [0.0]
        for L in lens:
            n.append(n[-1] + L / tot)
    elif kind == "function":
        n = [(k / N) ** 2 * 0.6 + 0.4 * k / N for k in range(N + 1)]
    elif kind == "density":
        from scipy.integrate import quad
        from scipy.optimize import brentq
        rho = _density_fun(opts.get("dens", "lin"))
        tot = quad(rho, 0, 1, epsabs=1e-13, epsrel=1e-13)[0]
        n = [0.0]
        for k in range(1, N):
            target = tot * k / N
            n.append(brentq(lambda s: quad(rho, 0, s, epsabs=1e-13, epsrel=1e-13)[0] - target, 0, 1, xtol=1e-14))
        n.append(1.0)
    elif kind == "dense_edges":
        # density = CasADi's own 'smooth_linear' interpolant through (0,m), (e,1), (1-e,1), (1,m) (a trusted CasADi
        # component); the equidistribution is computed here with scipy
        import casadi as ca
        from scipy.integrate import quad
        from scipy.optimize import brentq
        m_, e_ = float(opts.get("multiplier", 10)), float(opts.get("edge_frac", 0.1))
        itp = ca.interpolant("interp", "bspline", [[0.0, e_, 1 - e_, 1.0]], [m_, 1.0, 1.0, m_], {"algorithm": "smooth_linear"})
        rho = lambda tau: float(itp(tau))
        cum = lambda s_: quad(rho, 0, s_, epsabs=1e-12, epsrel=1e-12, points=[p_ for p_ in (e_, 1 - e_) if p_ < s_] or None, limit=200)[0]
        tot = cum(1.0)
        n = [0.0]
        for k in range(1, N):
            n.append(brentq(lambda s_: cum(s_) - tot * k / N, 0, 1, xtol=1e-13))
        n.append(1.0)
    elif kind == "free":
        n = None
    else:
        raise KeyError(kind)
    _norm_cache[key] = n
    return n


def grid_is_labelled(d):
    kind, opts = P.grid_kind_opts(d)
    return kind == "free" or opts.get("localize_t0", False) or opts.get("localize_T", False)


# ------------------------------------------------------------------------------------------
# collocation data from the textbook definitions

_coll_cache = {}


def colloc(degree, scheme):
    key = (degree, scheme)
    if key in _coll_cache:
        return _coll_cache[key]
    from numpy.polynomial import legendre as L, polynomial as Pl
    if scheme == "legendre":
        xs = np.sort(np.real(L.Legendre.basis(degree).roots()))
    elif scheme == "radau":
        # Radau IIA: roots of P_d - P_{d-1} (includes +1)
        pol = L.Legendre.basis(degree) - L.Legendre.basis(degree - 1)
        xs = np.sort(np.real(pol.roots()))
    else:
        raise KeyError(scheme)
    tau = (xs + 1) / 2
    nodes = np.concatenate([[0.0], tau])
    C = np.zeros((degree + 1, degree))     # C[r,j] = l_r'(tau_j)
    D = np.zeros(degree + 1)               # D[r] = l_r(1)
    coefs = []
    for r in range(degree + 1):
        p = np.poly1d([1.0])
        for s in range(degree + 1):
            if s != r:
                p = p * np.poly1d([1.0, -nodes[s]]) / (nodes[r] - nodes[s])
        coefs.append(p)
        dp = p.deriv()
        for j in range(degree):
            C[r, j] = dp(tau[j])
        D[r] = p(1.0)
    # classical quadrature weights on the collocation nodes alone
    b = np.zeros(degree)
    for j in range(degree):
        p = np.poly1d([1.0])
        for s in range(degree):
            if s != j:
                p = p * np.poly1d([1.0, -tau[s]]) / (tau[j] - tau[s])
        ip = p.integ()
        b[j] = ip(1.0) - ip(0.0)
    out = dict(tau=tau, C=C, D=D, b=b, basis=coefs)
    _coll_cache[key] = out
    return out


# ------------------------------------------------------------------------------------------

def unflatten(d, vec):
    out = {}
    i = 0
    vec = np.asarray(vec, dtype=float).reshape(-1)
    for name, (r, c) in P.state_shapes(d):
        out[name] = vec[i:i + r * c].reshape((r, c), order="F")
        i += r * c
    return out


def flatten(d, dct):
    return np.concatenate([np.asarray(dct[name], dtype=float).reshape(-1, order="F") for name, _ in P.state_shapes(d)])


class RefPt:
    def __init__(self, traj, kind, idx, s):
        self.traj = traj; self.kind = kind; self.idx = idx; self.s = s

    def _shift(self, fn, o):
        if self.kind != "control":
            raise Unplaceable("offset on a non-control grid")
        n = self.idx + o
        if n < 0 or n > self.traj.N:
            raise OutOfHorizon()
        return fn(NP, self.traj.pt_control(n))

    def next(self, fn):
        return self._shift(fn, 1)

    def prev(self, fn):
        return self._shift(fn, -1)

    def offset(self, fn, o):
        return self._shift(fn, o)

    # global-point operations
    def at_t0(self, fn):
        return fn(NP, self.traj.pt_control(0))

    def at_tf(self, fn):
        return fn(NP, self.traj.pt_control(self.traj.N))

    def sum(self, fn, include_last=False):
        tr = self.traj
        r = 0.0
        for k in range(tr.N + (1 if include_last else 0)):
            r = r + fn(NP, tr.pt_control(k))
        return r

    def integral_control(self, fn):
        tr = self.traj
        r = 0.0
        for k in range(tr.N):
            r = r + (tr.tc[k + 1] - tr.tc[k]) * fn(NP, tr.pt_control(k))
        return r

    def integral(self, fn):
        return self.traj.quadrature(fn)

    quad_state = integral


class RefTraj:
    """All node / stage values of one stage at one labelled point q."""

    def __init__(self, d, q, param_values=None):
        self.d = d
        self.q = q
        N, M = d["N"], d["M"]
        self.N, self.M = N, M
        hz = d["horizon"]
        self.notes = []        # (origin, message) read-back disagreements found while building
        pv = dict(P.PARAM_VALUES)
        pv.update(d.get("pvals", {}))
        if param_values:
            pv.update(param_values)
        self.pv = pv
        # horizon
        if hz in ("Tfree", "bothfree", "Tvar"):
            self.T = float(np.asarray(q["T"]).reshape(-1)[0])
        else:
            self.T = float(pv.get("TT", d["TT"]))
        if hz in ("t0free", "bothfree"):
            self.t0 = float(np.asarray(q["t0"]).reshape(-1)[0])
        else:
            self.t0 = float(pv.get("T0", d["T0"]))
        kind, opts = P.grid_kind_opts(d)
        self.gkind, self.gopts = kind, opts
        self.tc_declared = None
        if grid_is_labelled(d):
            self.tc = np.asarray(q["tc"], dtype=float).reshape(-1)
        else:
            n = normalized(kind, opts, N)
            self.tc = np.array([self.t0 + self.T * e for e in n])
            if kind in ("density", "dense_edges"):
                # equidistribution is computed numerically on both sides (rockit: cvodes + bisection);
                # rows are evaluated on the sampled grid, which is compared with the declared one at 1e-6
                self.tc_declared = self.tc
                self.tc = np.asarray(q["tc"], dtype=float).reshape(-1)
        self.ti = []
        for k in range(N):
            dt = (self.tc[k + 1] - self.tc[k]) / M
            self.ti.append([self.tc[k] + l * dt for l in range(M)])
        # parameters (from the specification, never from the NLP)
        self.pg = None
        if d["pg"] == "scalar":
            self.pg = float(pv["pg"])
        elif d["pg"] == "mat":
            self.pg = np.asarray(pv.get("pgm", P.pgm_value()), dtype=float).reshape(2, 2)
        self.pc = None
        if d["pc"]:
            self.pc = np.asarray(pv.get("pc", P.pc_table(d)), dtype=float).reshape(-1)
        self.vg = float(np.asarray(q["vg"]).reshape(-1)[0]) if d["vg"] else None
        self.vc = np.asarray(q["vc"], dtype=float).reshape(-1) if d["vc"] else None
        self.pcq = P.pc_table(d, "pcq").reshape(-1) if d["pc"] == "both" else None
        self.vcq = np.asarray(q["vcq"], dtype=float).reshape(-1) if d["vc"] == "both" else None
        self.vc2 = np.asarray(q["vc2"], dtype=float).reshape(-1) if d["vc"] == "two" else None
        self.nu = P.nu_of(d)
        self.U = np.asarray(q["U"], dtype=float).reshape(self.nu, N, order="F") if self.nu else np.zeros((0, N))
        self.nx = P.nx_of(d)
        self._build_states()
        self._quad_cache = {}

    # -- environments ------------------------------------------------------------------
    def _base_env(self):
        s = {"T": self.T, "t0": self.t0, "tf": self.t0 + self.T}
        if self.pg is not None:
            s["pg"] = self.pg
        if self.vg is not None:
            s["vg"] = self.vg
        return s

    def _interval_env(self, k, node=None):
        """per-interval quantities of interval k (node index for control+ quantities)"""
        s = self._base_env()
        d = self.d
        kk = min(k, self.N - 1)
        if self.nu:
            s["u"] = self.U[:, kk].reshape(-1, 1)
        if self.pc is not None:
            s["pc"] = float(self.pc[node if (d["pc"] == "control+" and node is not None) else kk])
        if self.vc is not None:
            s["vc"] = float(self.vc[node if (d["vc"] == "control+" and node is not None) else kk])
        if self.pcq is not None:
            s["pcq"] = float(self.pcq[node if node is not None else kk])
        if self.vcq is not None:
            s["vcq"] = float(self.vcq[node if node is not None else kk])
        if getattr(self, "vc2", None) is not None:
            s["vc2"] = float(self.vc2[kk])
        s["DT_control"] = self.tc[kk + 1] - self.tc[kk]
        s["DT"] = s["DT_control"] / self.M
        return s

    def env_dyn(self, k, xflat, t, z=None):
        s = self._interval_env(k, node=k)
        s.update(unflatten(self.d, xflat))
        s["t"] = t
        if z is not None:
            s["z"] = float(z)
        return s

    def zpoly(self, k, l, tau):
        """algebraic value off the collocation points: the polynomial through the step's collocation values
        (degree d-1 on the d collocation nodes), evaluated at local time tau"""
        col = self.col
        deg = self.d["degree"]
        val = 0.0
        for j in range(deg):
            lj = 1.0
            for r in range(deg):
                if r != j:
                    lj *= (tau - col["tau"][r]) / (col["tau"][j] - col["tau"][r])
            val += self.Zr[k][l][j] * lj
        return val

    def _qcum(self):
        """running value of the user quadrature state at every integrator point (the method's own quadrature)"""
        if getattr(self, "_qc", None) is not None:
            return self._qc
        d, N, M = self.d, self.N, self.M
        fn = lambda m, p: P.quad_integrand(m, p.s, d)
        self._in_qcum = True
        try:
            Q = {}; tot = 0.0
            for k in range(N):
                dt = (self.tc[k + 1] - self.tc[k]) / M
                x = self.X[:, k].copy()
                for l in range(M):
                    Q[(k, l)] = tot
                    if d["method"] == "DC":
                        for j in range(d["degree"]):
                            tot = tot + self.col["b"][j] * dt * fn(NP, self.pt_root(k, l, j))
                    else:
                        x, qs, _ = self.step(k, x, self.tc[k] + l * dt, dt, quad_fns=(fn,))
                        tot = tot + qs[0]
            Q["final"] = tot
        finally:
            self._in_qcum = False
        self._qc = Q
        return Q

    def _add_q(self, s, key):
        if self.d.get("quad") and not getattr(self, "_in_qcum", False):
            s["q"] = self._qcum()[key]

    def pt_control(self, n):
        s = self._interval_env(n, node=n)
        s.update(unflatten(self.d, self.X[:, n]))
        s["t"] = self.tc[n]
        self._add_q(s, (n, 0) if n < self.N else "final")
        if self.d["alg"] and self.d["method"] == "DC":
            s["z"] = self.zpoly(n, 0, 0.0) if n < self.N else self.zpoly(self.N - 1, self.M - 1, 1.0)
        return RefPt(self, "control", n, s)

    def pt_integrator(self, k, l):
        s = self._interval_env(k, node=k)
        s.update(unflatten(self.d, self.Xi[k][l]))
        s["t"] = self.ti[k][l]
        self._add_q(s, (k, l))
        if self.d["alg"] and self.d["method"] == "DC":
            s["z"] = self.zpoly(k, l, 0.0)
        return RefPt(self, "integrator", (k, l), s)

    def pt_root(self, k, l, j):
        if self.d["method"] != "DC":
            raise Unplaceable("integrator_roots needs collocation")
        s = self._interval_env(k, node=k)
        s.update(unflatten(self.d, self.Xr[k][l][j]))
        dt = (self.tc[k + 1] - self.tc[k]) / self.M
        s["t"] = self.ti[k][l] + dt * self.col["tau"][j]
        if self.d["alg"]:
            s["z"] = float(self.Zr[k][l][j])
        return RefPt(self, "root", (k, l, j), s)

    def pt_global(self):
        return RefPt(self, "global", None, self._base_env())

    # -- dynamics ----------------------------------------------------------------------
    def f(self, k, xflat, t, z=None):
        s = self.env_dyn(k, xflat, t, z)
        return flatten(self.d, P.rhs(NP, s, self.d))

    def step(self, k, x, t, dt, quad_fns=()):
        """one integrator step of the declared scheme; returns (x_end, [quadrature increments], stages)"""
        d = self.d
        if d["intg"] == "set_next":
            s = self.env_dyn(k, x, t)
            s["DT"] = dt
            return flatten(d, P.rhs(NP, s, d)), [0.0 for _ in quad_fns], None
        L = lambda xx, tt: [fn(NP, RefPt(self, "stage", None, self.env_dyn(k, xx, tt))) for fn in quad_fns]
        if d["intg"] == "expl_euler":
            k1 = self.f(k, x, t)
            return x + dt * k1, [dt * e for e in L(x, t)], dict(k=[k1])
        if d["intg"] == "rk":
            k1 = self.f(k, x, t); l1 = L(x, t)
            x2 = x + dt / 2 * k1
            k2 = self.f(k, x2, t + dt / 2); l2 = L(x2, t + dt / 2)
            x3 = x + dt / 2 * k2
            k3 = self.f(k, x3, t + dt / 2); l3 = L(x3, t + dt / 2)
            x4 = x + dt * k3
            k4 = self.f(k, x4, t + dt); l4 = L(x4, t + dt)
            xe = x + dt / 6 * (k1 + 2 * k2 + 2 * k3 + k4)
            qs = [dt / 6 * (a + 2 * b + 2 * c + e) for a, b, c, e in zip(l1, l2, l3, l4)]
            return xe, qs, dict(k=[k1, k2, k3, k4])
        raise KeyError(d["intg"])

    def _build_states(self):
        d, q, N, M = self.d, self.q, self.N, self.M
        nx = self.nx
        meth = d["method"]
        if meth == "DC":
            self.col = colloc(d["degree"], d["scheme"])
            deg = d["degree"]
            Xi = np.asarray(q["Xi"], dtype=float).reshape(nx, N * M + 1, order="F")
            Xr = np.asarray(q["Xr"], dtype=float).reshape(nx, N * M * deg, order="F")
            self.X = np.column_stack([Xi[:, k * M] for k in range(N)] + [Xi[:, N * M]])
            self.Xi = [[Xi[:, k * M + l] for l in range(M)] for k in range(N)]
            self.Xr = [[[Xr[:, (k * M + l) * deg + j] for j in range(deg)] for l in range(M)] for k in range(N)]
            if d["alg"]:
                Zr = np.asarray(q["Zr"], dtype=float).reshape(-1)
                self.Zr = [[[Zr[(k * M + l) * deg + j] for j in range(deg)] for l in range(M)] for k in range(N)]
            Xq = np.asarray(q["X"], dtype=float).reshape(nx, N + 1, order="F")
            if not np.allclose(Xq, self.X, rtol=0, atol=1e-9):
                self.notes.append(("readback", "sample(x,'control') != sample(x,'integrator') at shared nodes"))
            self.Phi = None
            return
        Xq = np.asarray(q["X"], dtype=float).reshape(nx, N + 1, order="F")
        if meth == "MS":
            self.X = Xq.copy()
        else:  # SS: only the initial state is a decision; later nodes are the recursion
            self.X = np.zeros((nx, N + 1))
            self.X[:, 0] = Xq[:, 0]
        self.Xi = []
        self.Phi = []
        for k in range(N):
            dt = (self.tc[k + 1] - self.tc[k]) / M
            x = self.X[:, k].copy()
            row = []
            for l in range(M):
                row.append(x.copy())
                x, _, _ = self.step(k, x, self.tc[k] + l * dt, dt)
            self.Xi.append(row)
            self.Phi.append(x)
            if meth == "SS":
                self.X[:, k + 1] = x

    # -- quadrature of an integrand along the discretised trajectory --------------------
    def quadrature(self, fn):
        d, N, M = self.d, self.N, self.M
        if d["intg"] == "set_next":
            raise Unplaceable("integral with a discrete-time model")
        tot = 0.0
        if d["method"] == "DC":
            b = self.col["b"]; tau = self.col["tau"]
            for k in range(N):
                dt = (self.tc[k + 1] - self.tc[k]) / M
                for l in range(M):
                    for j in range(d["degree"]):
                        tot = tot + b[j] * dt * fn(NP, self.pt_root(k, l, j))
            return tot
        for k in range(N):
            dt = (self.tc[k + 1] - self.tc[k]) / M
            x = self.X[:, k].copy()
            for l in range(M):
                x, qs, _ = self.step(k, x, self.tc[k] + l * dt, dt, quad_fns=(fn,))
                tot = tot + qs[0]
        return tot

    # -- expected rows -------------------------------------------------------------------
    def dyn_rows(self):
        """list of (origin, kind, value) for the dynamic constraints"""
        d, N, M = self.d, self.N, self.M
        rows = []
        if d["method"] == "SS":
            return rows
        if d["method"] == "MS":
            for k in range(N):
                r = self.X[:, k + 1] - self.Phi[k]
                for i in range(self.nx):
                    rows.append(("dyn:gap:%d:%d" % (k, i), "eq", float(r[i])))
            return rows
        col = self.col; deg = d["degree"]
        for k in range(N):
            dt = (self.tc[k + 1] - self.tc[k]) / M
            for l in range(M):
                pts = [self.Xi[k][l]] + list(self.Xr[k][l])
                for j in range(deg):
                    pidot = sum(pts[r] * col["C"][r, j] for r in range(deg + 1)) / dt
                    tj = self.ti[k][l] + dt * col["tau"][j]
                    z = self.Zr[k][l][j] if d["alg"] else None
                    fx = self.f(k, pts[j + 1], tj, z)
                    for i in range(self.nx):
                        rows.append(("dyn:coll:%d:%d:%d:%d" % (k, l, j, i), "eq", float(pidot[i] - fx[i])))
                    if d["alg"]:
                        s = self.env_dyn(k, pts[j + 1], tj, z)
                        rows.append(("dyn:alg:%d:%d:%d" % (k, l, j), "eq", float(P.alg(NP, s, d))))
                end = sum(pts[r] * col["D"][r] for r in range(deg + 1))
                nxt = self.Xi[k][l + 1] if l + 1 < M else self.X[:, k + 1]
                for i in range(self.nx):
                    rows.append(("dyn:cont:%d:%d:%d" % (k, l, i), "eq", float(end[i] - nxt[i])))
        return rows

    def _rel_rows(self, rel, origin, scale=1.0):
        k = rel[0]
        out = []
        if k == "eq":
            v = NP.flat(np.asarray(rel[1], dtype=float) - np.asarray(rel[2], dtype=float))
            out += [(origin, "eq", float(e) / scale) for e in v]
        elif k == "le":
            v = NP.flat(np.asarray(rel[2], dtype=float) - np.asarray(rel[1], dtype=float))
            out += [(origin, "ineq", float(e) / scale) for e in v]
        elif k == "ge":
            v = NP.flat(np.asarray(rel[1], dtype=float) - np.asarray(rel[2], dtype=float))
            out += [(origin, "ineq", float(e) / scale) for e in v]
        elif k == "between":
            lo = NP.flat(np.asarray(rel[2], dtype=float) - np.asarray(rel[1], dtype=float))
            hi = NP.flat(np.asarray(rel[3], dtype=float) - np.asarray(rel[2], dtype=float))
            for a, b in zip(lo, hi):
                if np.isfinite(a):
                    out.append((origin, "ineq", float(a) / scale))
                if np.isfinite(b):          # an infinite bound is no row
                    out.append((origin, "ineq", float(b) / scale))
        return out

    def con_points(self, c):
        """grid points at which the path constraint c is imposed (placement rule of the statement)"""
        d, N, M = self.d, self.N, self.M
        grid = c.get("grid") or "control"
        inc_f = c.get("include_first", True); inc_l = c.get("include_last", True)
        pts = []
        if grid == "control":
            for n in range(N + 1):
                if n == 0 and not inc_f: continue
                if n == N and not inc_l: continue
                pts.append(("control", n))
        elif grid == "integrator":
            for k in range(N):
                for l in range(M):
                    if k == 0 and l == 0 and not inc_f: continue
                    pts.append(("integrator", k, l))
            if inc_l:
                pts.append(("control", N))
        elif grid == "integrator_roots":
            if d["method"] != "DC":
                raise Unplaceable("integrator_roots under a shooting method")
            for k in range(N):
                for l in range(M):
                    for j in range(d["degree"]):
                        pts.append(("root", k, l, j))
        else:
            raise KeyError(grid)
        return pts

    def get_pt(self, spec):
        if spec[0] == "control":
            return self.pt_control(spec[1])
        if spec[0] == "integrator":
            return self.pt_integrator(spec[1], spec[2])
        if spec[0] == "root":
            return self.pt_root(spec[1], spec[2], spec[3])

    def con_rows(self):
        """rows of the declared constraints"""
        d = self.d
        rows = []
        for ci, c in enumerate(d["cons"]):
            fn = P.CONS[c["c"]]
            sc = float(c.get("scale", 1))
            if c["c"] in P.POINT_CONS:
                rel = fn(NP, self.pt_global(), d)
                rows += self._rel_rows(rel, "point:%d" % ci, sc)
                continue
            for spec in self.con_points(c):
                try:
                    rel = fn(NP, self.get_pt(spec), d)
                except OutOfHorizon:
                    continue
                rows += self._rel_rows(rel, "path:%d:%s" % (ci, ",".join(map(str, spec))), sc)
        return rows

    def objective(self):
        d = self.d
        tot = 0.0
        g = self.pt_global()
        for o in d["obj"]:
            tot = tot + float(P.OBJS[o](NP, g, d))
        return tot

"""Runner:  ./check <ID> [--tier quick|thorough] [--replay file]

exit 0: property held on everything explored (known findings are listed, not alarms)
exit 1: at least one `VIOLATION property=<id> replay=<path>` line
exit 2: harness error (never to be read as "held")"""
import argparse, importlib, json, os, re, subprocess, sys, time

from .common import VERIF, seed as get_seed
OUT = os.environ.get("VERIF_OUT", VERIF)   # mutant runs write evidence/replays elsewhere
from . import explore

FINDINGS_FILE = os.path.join(VERIF, "known_findings.json")


def load_findings(pid):
    if not os.path.exists(FINDINGS_FILE):
        return []
    data = json.load(open(FINDINGS_FILE))
    return [f for f in data.get("findings", []) if f["property"] == pid]


def finding_matches(f, v):
    m = f.get("match", {})
    if "sig" in m and not re.search(m["sig"], v.get("sig", "")):
        return False
    tags = set(v.get("tags", []))
    for t in m.get("tags", []):
        if t not in tags:
            return False
    for t in m.get("not_tags", []):
        if t in tags:
            return False
    return True


def validate_evidence(ev):
    """schema validation with the tooling venv's jsonschema (absent from /venv)"""
    import shutil, tempfile
    sch = "/root/.vp/EVIDENCE.schema.json"
    exe = shutil.which("python3-vt")
    if not (exe and os.path.exists(sch)):
        # minimal structural check
        for k in ("property_id", "tier", "seed", "level", "coverage", "wall_s"):
            assert k in ev
        return
    with tempfile.NamedTemporaryFile("w", suffix=".json", delete=False) as f:
        json.dump(ev, f, default=str)
        tmp = f.name
    try:
        pr = subprocess.run([exe, "-c", "import json,sys,jsonschema; jsonschema.validate(json.load(open(sys.argv[1])), json.load(open(sys.argv[2])))", tmp, sch], capture_output=True, text=True)
        if pr.returncode != 0:
            raise ValueError(pr.stderr[-400:])
    finally:
        os.unlink(tmp)


def main(argv=None):
    ap = argparse.ArgumentParser()
    ap.add_argument("pid")
    ap.add_argument("--tier", default=os.environ.get("VERIF_TIER", "quick"))
    ap.add_argument("--replay", default=None)
    ap.add_argument("--workers", type=int, default=None)
    ap.add_argument("--limit", type=int, default=None, help="debug: only the first n cases")
    ap.add_argument("--no-confirm", action="store_true")
    ap.add_argument("--verbose", action="store_true")
    a = ap.parse_args(argv)
    pid = a.pid.upper()
    modname = "mc.props.%s" % pid.lower()
    os.environ.setdefault("PYTHONHASHSEED", "0")
    mod = importlib.import_module(modname)
    findings = load_findings(pid)
    open_findings = [f for f in findings if f.get("status") == "open"]

    if a.replay:
        rp = json.load(open(a.replay))
        out = explore.run_inline(modname, rp["case"])
        if out.get("harness_error"):
            print("HARNESS-ERROR", out["harness_error"]); return 2
        bad = []
        for v in out.get("violations", []):
            if not any(finding_matches(f, v) for f in open_findings):
                bad.append(v)
        for v in out.get("violations", []):
            print(("VIOLATION-DETAIL " if v in bad else "known ") + json.dumps(v)[:600])
        if bad:
            print("VIOLATION property=%s replay=%s" % (pid, a.replay))
            return 1
        print("replay: no unlisted violation")
        return 0

    t0 = time.time()
    tier = a.tier
    cases = list(mod.cases(tier))
    if a.limit:
        cases = cases[:a.limit]
    n_cases = len(cases)
    results = []
    harness_errors = []
    caps = []
    violations = []       # (case, v)
    known_hits = {}       # finding id -> count
    outcomes = set()
    nontrivial = set()
    evaluations = 0
    transitions = 0
    traces = 0
    extra_counts = {}
    samples = []
    for out in explore.run_all(modname, cases, workers=a.workers, chunksize=getattr(mod, "CHUNK", 1)):
        if out.get("harness_error"):
            harness_errors.append((out["case"], out["harness_error"])); continue
        if out.get("cap"):
            caps.append(dict(case=out["case"], cap=out["cap"])); continue
        traces += out.get("traces", 1)
        evaluations += out.get("evaluations", 1)
        transitions += out.get("transitions", 1)
        oc = out.get("outcome")
        if oc is not None:
            outcomes.add(oc)
            if out.get("nontrivial", True):
                nontrivial.add(oc)
        for k, v in out.get("counts", {}).items():
            extra_counts[k] = extra_counts.get(k, 0) + v
        if len(samples) < 4 and out.get("sample") is not None:
            samples.append(out["sample"])
        for v in out.get("violations", []):
            hit = [f for f in open_findings if finding_matches(f, v)]
            if hit:
                known_hits.setdefault(hit[0]["id"], [0, hit[0]])[0] += 1
            else:
                violations.append((out["case"], v))
    wall = time.time() - t0
    rc = 0
    if harness_errors:
        rc = 2
        for c, e in harness_errors[:3]:
            print("HARNESS-ERROR case=%s\n%s" % (json.dumps(c, default=str)[:400], e))
        print("HARNESS-ERROR count=%d" % len(harness_errors))
    # write replays, confirm the first few in a fresh process
    vio_lines = []
    rdir = os.path.join(OUT, "replays", pid)
    seen_sig = {}
    for c, v in violations:
        key = v.get("sig", "")
        seen_sig.setdefault(key, []).append((c, v))
    confirmed = 0
    for key, lst in sorted(seen_sig.items(), key=lambda kv: -len(kv[1])):
        c, v = min(lst, key=lambda cv: (len(cv[0].get("dev", [])) if isinstance(cv[0], dict) and "dev" in cv[0] else 0, len(json.dumps(cv[0], default=str))))
        os.makedirs(rdir, exist_ok=True)
        path = os.path.join(rdir, explore.sha([c, v.get("sig")]) + ".json")
        json.dump(dict(property=pid, case=c, violation=v, n_cases_with_this_signature=len(lst)), open(path, "w"), indent=1, default=str)
        if not a.no_confirm and confirmed < 2:
            confirmed += 1
            pr = subprocess.run([sys.executable, "-m", "mc.main", pid, "--replay", path], cwd=VERIF, capture_output=True, text=True)
            if pr.returncode != 1:
                print("HARNESS-ERROR violation did not reproduce in a fresh process: %s (rc=%d)\n%s" % (path, pr.returncode, (pr.stdout + pr.stderr)[-800:]))
                rc = 2
                continue
        vio_lines.append("VIOLATION property=%s replay=%s" % (pid, path))
        if a.verbose or True:
            print("  detail: sig=%s tags=%s cases=%d %s" % (v.get("sig"), v.get("tags"), len(lst), str(v.get("detail", ""))[:300]))
    for fid, (n, f) in sorted(known_hits.items()):
        print("KNOWN-FINDING: property=%s %s [%s; %d explored states]" % (pid, f["title"], fid, n))
    for ln in vio_lines:
        print(ln)
    if vio_lines and rc == 0:
        rc = 1
    desc = mod.describe(tier) if hasattr(mod, "describe") else {}
    cov = dict(
        states=n_cases, transitions=max(transitions, 1), traces_validated_against_impl=traces,
        evaluations=max(evaluations, 1), distinct_nontrivial=len(nontrivial), distinct_outcomes=len(outcomes),
        rule=desc.get("rule", ""), samples=samples or [cases[0] if cases else {}],
        exhaustive=(not caps and not a.limit and not harness_errors), bound=desc.get("bound", ""),
        caps_hit=caps[:10], n_caps=len(caps), known_findings_hit={k: v[0] for k, v in known_hits.items()},
        counts=extra_counts,
    )
    ev = dict(property_id=pid, tier=("thorough" if tier == "thorough" else "quick"), seed=get_seed(), level="model_checking",
              coverage=cov, assumptions=desc.get("assumptions", []), wall_s=round(wall, 2), violations=len(vio_lines))
    try:
        validate_evidence(ev)
    except Exception as e:
        print("HARNESS-ERROR evidence does not validate: %s" % str(e)[:300])
        rc = 2
    os.makedirs(os.path.join(OUT, "evidence"), exist_ok=True)
    json.dump(ev, open(os.path.join(OUT, "evidence", pid + ".json"), "w"), indent=1, default=str)
    print("%s tier=%s states=%d traces=%d evaluations=%d distinct_outcomes=%d nontrivial=%d caps=%d known=%d violations=%d wall=%.1fs rc=%d" % (
        pid, tier, n_cases, traces, evaluations, len(outcomes), len(nontrivial), len(caps), sum(v[0] for v in known_hits.values()), len(vio_lines), wall, rc))
    return rc


if __name__ == "__main__":
    sys.exit(main())

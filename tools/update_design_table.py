#!/usr/bin/env python3
"""refresh the 'quick' column of the per-property table in DESIGN.md from the committed evidence files"""
import json, os, re
V = os.path.dirname(os.path.dirname(os.path.abspath(__file__)))
s = open(os.path.join(V, "DESIGN.md")).read().split("\n")
for i, l in enumerate(s):
    m = re.match(r"^\| (C\d\d) \|", l)
    if m and l.count("|") >= 5:
        f = os.path.join(V, "evidence", m.group(1) + ".json")
        if os.path.exists(f):
            e = json.load(open(f))
            if e["tier"] != "quick":
                continue
            cells = l.split("|")
            cells[-2] = " %d states, %d traces, %.0f s " % (e["coverage"]["states"], e["coverage"]["traces_validated_against_impl"], e["wall_s"])
            s[i] = "|".join(cells)
open(os.path.join(V, "DESIGN.md"), "w").write("\n".join(s))

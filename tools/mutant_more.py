#!/usr/bin/env python3
"""Run further checks against an already stored seeded change and merge the verdicts into its meta.json.

  tools/mutant_more.py <seeded-name> <PROP> [more props ...] [--tier thorough]

A scratch worktree of /repo's HEAD (outside /repo and /verif) gets seeded/<name>/patch.diff; it is removed afterwards."""
import json, os, shutil, subprocess, sys, time

VERIF = os.path.dirname(os.path.dirname(os.path.abspath(__file__)))


def sh(cmd, **kw):
    return subprocess.run(cmd, shell=True, capture_output=True, text=True, **kw)


def main():
    args = [a for a in sys.argv[1:] if not a.startswith("--")]
    tier = "thorough" if "--tier=thorough" in sys.argv or "--thorough" in sys.argv else "quick"
    name, props = args[0], args[1:]
    dst = os.path.join(VERIF, "seeded", name)
    meta = json.load(open(os.path.join(dst, "meta.json")))
    wt = "/tmp/mt/%s-more" % name
    out = "/tmp/mt_out/%s-more" % name
    sh("git -C /repo worktree remove --force %s" % wt)
    shutil.rmtree(out, ignore_errors=True)
    os.makedirs(out, exist_ok=True)
    os.makedirs("/tmp/mt", exist_ok=True)
    r = sh("git -C /repo worktree add -q %s HEAD" % wt)
    assert r.returncode == 0, r.stderr
    try:
        r = sh("git -C %s apply %s" % (wt, os.path.join(dst, "patch.diff")))
        assert r.returncode == 0, r.stderr
        for p in props:
            t = time.time()
            e2 = dict(os.environ, ROCKIT_REPO=wt, VERIF_OUT=out)
            r = subprocess.run([os.path.join(VERIF, "check"), p, "--tier", tier, "--no-confirm"], capture_output=True, text=True, env=e2, cwd=VERIF)
            sigs = [l.strip()[:260] for l in r.stdout.splitlines() if l.startswith("  detail")]
            meta["detected_by"][p] = dict(rc=r.returncode, sigs=sigs[:4])
            meta["what_i_ran"].append("./check %s --tier %s against the patched worktree: rc=%d" % (p, tier, r.returncode))
            print(name, p, "rc", r.returncode, [s.split("sig=")[1].split(" ")[0] for s in sigs[:3]], "%.0fs" % (time.time() - t))
    finally:
        sh("git -C /repo worktree remove --force %s" % wt)
        shutil.rmtree(out, ignore_errors=True)
    meta["detected"] = any(v["rc"] == 1 for v in meta["detected_by"].values())
    meta["repo_head"] = sh("git -C /repo rev-parse --short HEAD").stdout.strip()
    json.dump(meta, open(os.path.join(dst, "meta.json"), "w"), indent=1)


if __name__ == "__main__":
    sys.exit(main())

#!/usr/bin/env python3
"""Confirm and evaluate one seeded change.

  tools/mutant.py <name> <patch.diff> <demo.py> <PROP> [more props to run ...] [--keep] [--skip-tests]

In a scratch worktree of /repo's HEAD (outside /repo and /verif):
  1. demo passes on clean HEAD
  2. patch applies; package imports
  3. the 41 stable baseline tests still pass with the patch
  4. demo fails with the patch
  5. ./check <PROP> --tier quick reports a VIOLATION (run with ROCKIT_REPO pointing at the worktree)
The worktree is removed afterwards.  With --keep the change is stored under /verif/seeded/<name>/."""
import json, os, shutil, subprocess, sys, time

VERIF = os.path.dirname(os.path.dirname(os.path.abspath(__file__)))


def sh(cmd, **kw):
    return subprocess.run(cmd, shell=True, capture_output=True, text=True, **kw)


def main():
    args = [a for a in sys.argv[1:] if not a.startswith("--")]
    flags = [a for a in sys.argv[1:] if a.startswith("--")]
    name, patch, demo = args[0], os.path.abspath(args[1]), os.path.abspath(args[2])
    props = args[3:]
    wt = "/tmp/mt/%s" % name
    out = "/tmp/mt_out/%s" % name
    sh("git -C /repo worktree remove --force %s" % wt)
    shutil.rmtree(out, ignore_errors=True)
    os.makedirs(out, exist_ok=True)
    os.makedirs("/tmp/mt", exist_ok=True)
    r = sh("git -C /repo worktree add -q %s HEAD" % wt)
    assert r.returncode == 0, r.stderr
    rec = dict(name=name, property=props[0] if props else None, ran=[], repo_head=sh("git -C /repo rev-parse --short HEAD").stdout.strip())
    env = dict(os.environ, PYTHONPATH=wt, PYTHONDONTWRITEBYTECODE="1")
    try:
        r = subprocess.run(["/venv/bin/python", demo], capture_output=True, text=True, env=env, cwd=out, timeout=900)
        rec["demo_clean_rc"] = r.returncode
        r = sh("git -C %s apply %s" % (wt, patch))
        rec["applies"] = r.returncode == 0
        if not rec["applies"]:
            rec["apply_err"] = r.stderr[-300:]
            print(json.dumps(rec, indent=1)); return 1
        if "--skip-tests" not in flags:
            t = time.time()
            r = sh("cd %s && /venv/bin/python -m pytest -q -p no:cacheprovider --timeout=900 $(cat /tmp/wt/stable_ids.txt) 2>&1 | tail -3" % wt)
            rec["stable_tests"] = r.stdout.strip().splitlines()[-1] if r.stdout.strip() else r.stderr[-200:]
            rec["stable_ok"] = "41 passed" in rec["stable_tests"] and "failed" not in rec["stable_tests"]
            rec["ran"].append("41 stable baseline tests in the patched worktree: %s (%.0fs)" % (rec["stable_tests"], time.time() - t))
        r = subprocess.run(["/venv/bin/python", demo], capture_output=True, text=True, env=env, cwd=out, timeout=900)
        rec["demo_mutant_rc"] = r.returncode
        rec["ran"].append("demo: rc=%s on clean HEAD, rc=%s with the patch" % (rec["demo_clean_rc"], rec["demo_mutant_rc"]))
        rec["detected_by"] = {}
        for p in props:
            t = time.time()
            e2 = dict(os.environ, ROCKIT_REPO=wt, VERIF_OUT=out)
            r = subprocess.run([os.path.join(VERIF, "check"), p, "--tier", "quick", "--no-confirm"], capture_output=True, text=True, env=e2, cwd=VERIF)
            sigs = [l.strip()[:260] for l in r.stdout.splitlines() if l.startswith("  detail")]
            rec["detected_by"][p] = dict(rc=r.returncode, violations=sum(1 for l in r.stdout.splitlines() if l.startswith("VIOLATION")), sigs=sigs[:4], wall=round(time.time() - t, 1))
            rec["ran"].append("./check %s --tier quick against the patched worktree: rc=%d" % (p, r.returncode))
            if r.returncode == 2:
                rec["detected_by"][p]["harness"] = r.stdout[-600:]
    finally:
        sh("git -C /repo worktree remove --force %s" % wt)
        shutil.rmtree(out, ignore_errors=True)
    rec["valid"] = bool(rec.get("applies") and rec.get("stable_ok", True) and rec.get("demo_clean_rc") == 0 and rec.get("demo_mutant_rc") not in (0, None))
    rec["detected"] = any(v["rc"] == 1 for v in rec["detected_by"].values())
    print(json.dumps(rec, indent=1))
    if "--keep" in flags and rec["valid"]:
        dst = os.path.join(VERIF, "seeded", name)
        os.makedirs(dst, exist_ok=True)
        shutil.copy(patch, os.path.join(dst, "patch.diff"))
        shutil.copy(demo, os.path.join(dst, "demo.py"))
        md = os.path.splitext(patch)[0] + ".md"
        meta = dict(property=rec["property"], name=name, needs=open(md).read() if os.path.exists(md) else "", what_i_ran=rec["ran"],
                    detected_by={k: dict(rc=v["rc"], sigs=v["sigs"]) for k, v in rec["detected_by"].items()}, detected=rec["detected"], repo_head=rec["repo_head"])
        json.dump(meta, open(os.path.join(dst, "meta.json"), "w"), indent=1)
    return 0


if __name__ == "__main__":
    sys.exit(main())

#!/bin/bash
# usage: tools/eval_round2.sh C01 [extra props...]  -- archives the contributor's output and evaluates both changes
P=$1; shift
if [ -d /tmp/wt/${P}b/_out ]; then cp -r /tmp/wt/${P}b/_out /tmp/agent_out/${P}b; git -C /repo worktree remove --force /tmp/wt/${P}b; fi
for m in m1 m2; do
  python3 /verif/tools/mutant.py $P-r2-$m /tmp/agent_out/${P}b/$m.diff /tmp/agent_out/${P}b/${m}_demo.py $P "$@" --keep > /tmp/p/mut_${P}_r2_$m.json 2>&1 &
done
wait
for m in m1 m2; do python3 -c "
import json,sys
r=json.load(open('/tmp/p/mut_${P}_r2_$m.json')); print(r['name'],'valid',r.get('valid'),'detected',r.get('detected'), r.get('stable_tests'), r.get('demo_clean_rc'), r.get('demo_mutant_rc'), r.get('apply_err'), {k:(v['rc'],v['violations'],[s.split('sig=')[1].split(' ')[0] for s in v['sigs'][:2]]) for k,v in r.get('detected_by',{}).items()})" | cut -c1-400; done

#!/bin/bash
# usage: tools/wt_try.sh <seeded-name> <PROP> [check args...]   run one check against a scratch worktree with the seeded patch applied
N=$1; P=$2; shift 2
W=/tmp/mt/$N-dbg
git -C /repo worktree remove --force $W 2>/dev/null
git -C /repo worktree add -q $W HEAD && git -C $W apply /verif/seeded/$N/patch.diff || exit 3
mkdir -p /tmp/mt_out/$N-dbg
ROCKIT_REPO=$W VERIF_OUT=/tmp/mt_out/$N-dbg /verif/check $P --no-confirm "$@" 2>&1 | grep -v WARN | tail -${TAILN:-15}
git -C /repo worktree remove --force $W; rm -rf /tmp/mt_out/$N-dbg

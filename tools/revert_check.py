#!/usr/bin/env python3
"""For every 'fixed' entry of known_findings.json: revert that fix commit in a scratch worktree of /repo's HEAD and
run the property's quick check against it.  The violation must come back (exit 1): a fixed entry suppresses nothing."""
import json, os, subprocess, sys, shutil
VERIF = os.path.dirname(os.path.dirname(os.path.abspath(__file__)))
f = json.load(open(os.path.join(VERIF, "known_findings.json")))
only = sys.argv[1:]
res = []
procs = []
for e in f["findings"]:
    if e["status"] != "fixed": continue
    if only and e["id"] not in only and e["property"] not in only: continue
    wt = "/tmp/mt/rv_%s" % e["id"]; out = "/tmp/mt_out/rv_%s" % e["id"]
    subprocess.run("git -C /repo worktree remove --force %s" % wt, shell=True, capture_output=True)
    os.makedirs("/tmp/mt", exist_ok=True)
    subprocess.run("git -C /repo worktree add -q %s HEAD" % wt, shell=True, check=True)
    # later fixes that touch the same lines are reverted first (listed in 'revert_with')
    r = subprocess.run("git -C %s revert --no-commit %s" % (wt, " ".join(e.get("revert_with", []) + [e["commit"]])), shell=True, capture_output=True, text=True)
    if r.returncode != 0:
        res.append((e["id"], "revert-conflict", r.stderr[-200:].strip()))
        subprocess.run("git -C /repo worktree remove --force %s" % wt, shell=True, capture_output=True)
        continue
    env = dict(os.environ, ROCKIT_REPO=wt, VERIF_OUT=out)
    p = subprocess.Popen([os.path.join(VERIF, "check"), e["property"], "--tier", "quick", "--no-confirm"], cwd=VERIF, env=env, stdout=subprocess.PIPE, stderr=subprocess.STDOUT, text=True)
    procs.append((e, wt, out, p))
    if len(procs) >= 3:
        for e2, wt2, out2, p2 in procs:
            o = p2.communicate()[0]
            sigs = [l.strip()[:160] for l in o.splitlines() if l.startswith("  detail")][:2]
            res.append((e2["id"], "rc=%d" % p2.returncode, sigs))
            subprocess.run("git -C /repo worktree remove --force %s" % wt2, shell=True, capture_output=True); shutil.rmtree(out2, ignore_errors=True)
        procs = []
for e2, wt2, out2, p2 in procs:
    o = p2.communicate()[0]
    sigs = [l.strip()[:160] for l in o.splitlines() if l.startswith("  detail")][:2]
    res.append((e2["id"], "rc=%d" % p2.returncode, sigs))
    subprocess.run("git -C /repo worktree remove --force %s" % wt2, shell=True, capture_output=True); shutil.rmtree(out2, ignore_errors=True)
for r in res:
    print(r)
json.dump(res, open(os.path.join(VERIF, "seeded", "revert_check.json"), "w"), indent=1)

#!/bin/bash
# Diagnostic (not a check): which lines of /repo/rockit does no enumerated state of any quick check execute?
#   tools/linecov.sh [tier] [props...]     ->  report in /tmp/lc/report.txt, per-file missing line ranges
# Every worker process of the explorer records line coverage of rockit (mc/explore.py:_linecov, MC_LINECOV);
# evidence / replays go to a scratch dir, /verif/evidence is not touched.  An unexecuted branch of the library is a
# hole in an alphabet: a change there cannot be seen by any check, whatever the oracle.
T=${1:-quick}; shift
P=${@:-C01 C02 C03 C04 C05 C06 C07 C08 C09 C10 C11 C12 C13 C14 C15 C16 C17 C18 C19 C20}
D=/tmp/lc; rm -rf $D; mkdir -p $D
cd "$(dirname "$0")/.."
for p in $P; do MC_LINECOV=$D VERIF_OUT=$D/out ./check $p --tier $T --no-confirm 2>&1 | tail -1 | cut -c1-200; done
cd $D && /venv/bin/python -m coverage combine -q --data-file=$D/.coverage $D >/dev/null 2>&1
/venv/bin/python -m coverage report --data-file=$D/.coverage -m --include='*/rockit/*' > $D/report.txt
tail -1 $D/report.txt

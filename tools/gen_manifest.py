#!/usr/bin/env python3
"""Regenerates MANIFEST.json from the table below (keeps it schema-valid at all times)."""
import json, os, importlib.util, sys
HERE = os.path.dirname(os.path.dirname(os.path.abspath(__file__)))
ALL = ["C%02d" % i for i in range(1, 21)]

CLAIMS = {
 "C01": dict(technique="deviation-bounded exhaustive enumeration of (program x shooting configuration) states, each executed on the real rockit and compared row-for-row with a reference RK4/Euler/difference-equation transcription",
             text="Every OCP/configuration reachable by <=2 (quick) / <=3 (+4 on a core) deviations from a non-degenerate base is declared on the real library; every gap-closing row, the SingleShooting recursion, the integrator-grid states and discrete_system() are compared with an independent numpy transcription at generic points plus one excitation per decision coordinate.",
             design="DESIGN.md 3 (C01)"),

 "C02": dict(technique="deviation-bounded exhaustive enumeration of DirectCollocation configurations and ODE/DAE programs on the real rockit, rows compared with defects from an independent collocation implementation; feasibility of the independent trajectory checked on the real rows",
             text="Every configuration within <=2/<=3 deviations plus the full degree(1..5) x scheme x M x grid x {ODE,DAE} sub-product: collocation, algebraic and continuity rows equal the defects computed from own Legendre/Radau nodes and Lagrange basis; the reference's Newton-solved collocation trajectory is feasible for the real rows and each single-coordinate departure is infeasible exactly when the reference says so.",
             design="DESIGN.md 3 (C02)"),
 "C04": dict(technique="deviation-bounded exhaustive enumeration of constraint declarations x methods on the real rockit; canonical NLP rows matched as multisets against the placement rule of the statement",
             text="Constraint form x grid option x include_first/last x offsets x second constraint x method/N/M/degree/grid/horizon at <=2/<=3 deviations plus the full constraint-dimension sub-product: every real row must be explained (dynamics, declared constraint instance, or a pure time-grid row), every expected instance must be present with bounds and sense, unplaceable declarations must raise.",
             design="DESIGN.md 3 (C04)"),
 "C05": dict(technique="deviation-bounded exhaustive enumeration of objective-term combinations x methods on the real rockit; NLP objective compared with an independent Mayer/sum/quadrature evaluation; public read-back paths compared with the NLP objective",
             text="Term choices in three slots (16 term kinds) x method/intg/N/M/degree/scheme/grid/horizon at <=2/<=3 deviations plus every term x every scheme: opti.f equals the reference objective at all alphabet points; ocp.value(objective) and sol.value(objective) after a limited real solve equal the NLP objective.",
             design="DESIGN.md 3 (C05)"),
 "C06": dict(technique="exhaustive enumeration of the grid-class x option x N x M x horizon x method product (and ordered pairs of grid objects in one process) on the real rockit; sampled times compared with independent partitions; the grid's own NLP rows analysed as an enumerated affine system (null space, boundary lattice)",
             text="Full product of 9 grid classes x 6 option sets x N x M x horizon kinds x 3 methods: all sampled time vectors, value(T,t0,tf), DT and DT_control equal independently computed partitions; for localized/free grids the real time-only rows admit exactly the declared partition family and enforce min/max exactly on a boundary lattice.",
             design="DESIGN.md 3 (C06)"),

 "C09": dict(technique="deviation-bounded exhaustive enumeration of parametric programs x value alphabets plus depth-bounded exhaustive enumeration of set_value/query/solve/edit histories on the real rockit, against the reference with values written in, a constants-written-in twin on the real code, and a fresh object",
             text="Parameter kind x place of use x value alphabet (incl. unit tables/matrices) x method at <=2/<=3 deviations: all NLP data equal the reference evaluated with the declared values and the real OCP written with constants; every history of length <=3/<=4 over set_value (two parameters, two values each), query, solve, subject_to, method: the solver sees the NLP and parameter vector of a fresh OCP with the final values.",
             design="DESIGN.md 5 (C09)"),
 "C10": dict(technique="deviation-bounded exhaustive enumeration of guess declarations x methods plus depth-bounded exhaustive enumeration of set_initial/query/solve/edit histories on the real rockit, against an independent guess evaluator and a fresh object",
             text="Target x guess form x second call x method/N/M/degree/grid/horizon/scale at <=2/<=3 deviations plus the full target x form x method x grid table: the public read-back of the starting point equals the evaluator (open entries excluded and counted), rows and objective untouched; histories of length <=3/<=4 incl. dependent guesses: next solve = fresh = evaluator.",
             design="DESIGN.md 5 (C10)"),
 "C11": dict(technique="deviation-bounded exhaustive enumeration of free-horizon programs x methods on the real rockit against the reference evaluated at the labelled T,t0, plus a differential with the fixed-time OCP on the real code through the affine labelling",
             text="Free-horizon kind x method/intg/N/M/degree/scheme/grid (incl. localized, FreeGrid) x T/t0/tf terms x guesses at <=2/<=3 deviations: all rows/objective as the fixed-time transcription at the labelled horizon, start value = guess, time-only inequality rows violated exactly for T<0, restriction to T=c equals the OCP declared with c.",
             design="DESIGN.md 5 (C11)"),
 "C13": dict(technique="depth-bounded exhaustive enumeration of operation histories (no implementation-side state merging) on a live Ocp under a solver spy, compared with a fresh object of the final specification",
             text="Every history of length <=3 (quick) / <=4 + restricted 5 (thorough) over 16 public operations, and over a second 10-operation alphabet on a free-horizon base: what the solver receives (canonical rows, objective, start point, parameters, solver name/options) equals a fresh OCP declared from the final specification; a second solve sees the same; declared state untouched by queries/solves.",
             design="DESIGN.md 6 (C13)"),
 "C14": dict(technique="deviation-bounded exhaustive enumeration of scale assignments x methods on the real rockit against the unscaled reference, with the solver-variable/physical relation read from the enumerated labelling Jacobian",
             text="8 scale slots x method/degree/grid/N/M/DAE/horizon at <=3/<=4 deviations plus every slot x method x M x DAE: objective equal, user rows and bounds divided by the scale, dynamics rows up to a positive constant, each decision coordinate moves its physical read-back by exactly its scale, starting point equals the guesses in physical units.",
             design="DESIGN.md 5 (C14)"),

 "C12": dict(technique="exhaustive enumeration of stage lists (length <=3) x coupling patterns x declaration patterns (direct / cloned / edited clones) on the real rockit, compared with the disjoint union of the stages' reference transcriptions (and, for SplineMethod stages, of the stages' own real NLPs) plus coupling rows; per-stage numeric read-back sol(stage) through a solver-free solution object",
             text="Every stage list of length <=3 over a 7-stage alphabet x 7 coupling patterns x 4 declaration patterns, and every method list over {Spline, MS, DC} containing Spline: the multi-stage NLP is the disjoint union of the stages' NLPs plus the parent's coupling rows, the objective is the sum, clones equal direct declarations with overridden t0/T, siblings are independent, templates keep their declared state.",
             design="DESIGN.md 5 (C12)"),
 "C18": dict(technique="deviation-bounded exhaustive enumeration of feature programs x save positions (a short history dimension) on the real rockit under a solver spy; loaded vs original vs fresh object",
             text="19 feature dimensions at <=2 deviations plus multi-stage programs x 5 save positions: what the solver receives from the loaded OCP equals what it receives from the original after saving and from a fresh OCP; accessor lists/shapes/order equal; updates through the loaded OCP's accessor symbols have the same effect as on the original.",
             design="DESIGN.md 6 (C18)"),
 "C20": dict(technique="exhaustive fault enumeration: every single fault of the catalogue x position x base program x method x before/after a first transcription, executed on the real rockit under a blocking solver spy",
             text="33 fault kinds x applicable bases x positions x 5 method configurations x before/after transcription: an exception by solve time and zero NLPs handed to the solver; every base x method has a fault-free twin that must reach the solver.",
             design="DESIGN.md 6 (C20)"),

 "C07": dict(technique="exhaustive enumeration of expression ASTs (bounded depth) x grid options x method configurations on the real rockit, symbolic samples evaluated at a generic decision vector and compared with the numpy interpreter on the sampled ingredients; numeric read-back driven through a solver-free solution object",
             text="Every AST up to depth 2 (quick) / 3 (thorough) over 12 atoms with unary/binary/shape constructors x 7 grid options x 9-12 method configurations: sampling commutes with evaluation, value(e) likewise, sol.sample/sol.value equal the symbolic path with the [i,r,c] shape rule and one time stamp per entry, and the sampled ingredients equal independent references (declared per-interval values, interval controls, collocation polynomial of z).",
             design="DESIGN.md 4 (C07)"),
 "C15": dict(technique="exhaustive enumeration of polynomial constraint forms x methods x N,M x grids; for every alphabet direction the boundary of the certificate's feasible set is located on the real NLP rows by bisection and the exact minimum of the constraint's slack along the scheme's own polynomial is evaluated there",
             text="9 polynomial constraint forms x {SS rk, MS rk, DC degree 4} x N<=3 x M x {uniform, geometric, free} x horizon: at the first crossing of the certificate boundary along 3 generic and all signed unit directions the true slack over all times (polynomial arithmetic) is >= 0; programs without a guarantee raise before the solver is called; slack left at the boundary does not grow from M=1 to 4.",
             design="DESIGN.md 5 (C15)"),
 "C16": dict(technique="exhaustive enumeration of expression ASTs (bounded depth) x ODE models x generic points against a forward-mode dual-number interpreter; enumeration of control orders x methods for the derivative chain; B-spline signal derivatives against the analytic spline derivative",
             text="Every AST up to depth 2/3 over {x_i, y, t, global parameter, global variable} x 5 models x 3 points: der(e) equals the dual-number derivative along (rhs,1); control orders 1..4 x methods: chain structure, der^(k+1) raises, Taylor identities at a feasible point; der/der(der) of spline parameters vs scipy.",
             design="DESIGN.md 4 (C16)"),
 "C17": dict(technique="exhaustive enumeration of (order x N x grid x refinement) for the basis matrices against an independent Cox-de Boor (entry-wise, so all coefficient vectors are decided), of signal programs x methods, and of integrator-chain systems and linear non-chain models under SplineMethod (refused or exact; Taylor identities, row multisets, agreement with MultipleShooting, inf-constraint soundness by boundary search)",
             text="Order 0..4 x N<=8 x 3 grids x refinements 1..5: eval_on_knots / Greville / bspline_derivative equal scipy's clamped B-splines; B-spline parameters and variables in real OCPs (SplineMethod, MS, DC) are sampled as those splines, gist coefficients sit at Greville points; SplineMethod chain dynamics hold as exact Taylor identities, path rows sit at every refined point, MS's gaps vanish at the sampled spline trajectory, grid='inf' rows are sound.",
             design="DESIGN.md 4 (C17)"),

 "C03": dict(technique="exhaustive enumeration of schemes x grids x N x M against textbook stability functions, exact quadrature-order conditions and closed-form flows, evaluated at dynamically feasible points of the real NLP",
             text="Every scheme (shooting rk/expl_euler, collocation degree 1..5 x radau/legendre) x grid x N x M: interval maps equal R(z)^M of the textbook stability function (scalar and matrix), x'=t^m and integral(t^m) are exact below the classical order and show exactly the scheme's error constant at it, errors against 4 closed-form flows are non-increasing over M in {1,2,4,8} with the classical observed order; CasADi integrators and sys_simulator/discrete_system match the closed forms.",
             design="DESIGN.md 3 (C03)", note="'vanishes as M grows' is decided for M<=8 and through exact order conditions only. Trusted: CasADi Function evaluation, numpy/scipy."),
 "C08": dict(technique="deviation-bounded exhaustive enumeration of method configurations x models; all clauses of the statement evaluated at dynamically feasible points of the real NLP found by Newton on its enumerated rows",
             text="Method/intg/degree/scheme/N/M/grid/model at <=2/<=3 deviations plus every scheme x M x grid x 4 models: thinning refine->integrator->control (r=1..7), equal subdivisions, one polynomial of the scheme's degree per step incl. its end state, slopes = rhs (start / collocation times, through helper states), exactness on polynomial solutions, sampler(gist,t) = that polynomial on a lattice of query times.",
             design="DESIGN.md 4 (C08)"),
 "C19": dict(technique="exhaustive enumeration of ordered argument lists x argument value alphabets x methods x solver budgets; to_function output compared with a fresh imperative pipeline on the real rockit; the starting point of a second pipeline run on the same Ocp compared with a fresh Ocp's",
             text="Every ordered argument list of length <=2/<=3 over 6 argument kinds x 3^k values x 5 method configurations x {converge, zero iterations}: all outputs of F equal set_value/set_initial/solve/sample on a fresh OCP (the zero-iteration budget decides the initial-guess arguments).",
             design="DESIGN.md 6 (C19)", note="ipopt deterministic for a fixed NLP and start point; strictly convex alphabet so converged outputs do not depend on the guess."),
}
NOTE = "Trusted: CasADi Function evaluation and Opti bookkeeping (x,p,f,g,lbg,ubg,initial), numpy/scipy, the reference model (written from the property statements, cross-checked against textbook closed forms). Numeric quantifiers are closed by a fixed generic-point alphabet (a stated bound), configuration quantifiers by the stated deviation/depth bound."

def main():
    checks = []
    for pid in ALL:
        if pid not in CLAIMS: continue
        c = CLAIMS[pid]
        checks.append(dict(
            property_id=pid,
            quick_cmd="./check %s --tier quick" % pid,
            thorough_cmd="./check %s --tier thorough" % pid,
            evidence_file="/verif/evidence/%s.json" % pid,
            replay_cmd_template="./check %s --replay {path}" % pid,
            engine="mc-explorer",
            level_claimed=dict(category=c.get("category", "model_checking"), text=c["text"], design_ref=c["design"]),
            level_note=c.get("note", NOTE),
            technique=c["technique"]))
    na = [dict(property_id=p, reason=NA.get(p, "check not built yet in this session (work in progress); the design in DESIGN.md applies and the property is within the family")) for p in ALL if p not in CLAIMS]
    m = dict(
        version=1,
        setup_cmd="/venv/bin/python -m compileall -q mc >/dev/null && /venv/bin/python -c \"import sys; sys.path.insert(0,'/repo'); import casadi, numpy, scipy, rockit; import mc.main\"",
        hooks=dict(guard="ROCKIT_VERIF", enable="no source hooks are needed: every seam (NLP extraction, solver spy, fake solution) is reachable from outside the package; checks import rockit from /repo's working tree",
                   baseline_off_cmd="cd /repo && /venv/bin/python -m pytest -ra -q -p no:cacheprovider --timeout=900 --continue-on-collection-errors",
                   source_commits=[], add_only=True),
        engines=[dict(name="mc-explorer", path="/verif/mc", serves_properties=sorted(CLAIMS), kind_free_text="hand-written explicit-state explorer for Python: deviation-bounded product enumeration and depth-bounded history enumeration of rockit's public API, executed on the real implementation in lock-step with a numpy reference model")],
        checks=checks,
        notes="All checks: ./check <ID> --tier quick|thorough ; exit 0 held, 1 violation (VIOLATION line + replay file), 2 harness error. Known findings: /verif/known_findings.json.",
        not_applicable=na)
    json.dump(m, open(os.path.join(HERE, "MANIFEST.json"), "w"), indent=1)
    print("claimed", len(checks), "not_applicable", len(na))

NA = {}
if __name__ == "__main__":
    main()

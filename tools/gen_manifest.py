#!/usr/bin/env python3
"""Regenerates MANIFEST.json from the table below (keeps it schema-valid at all times)."""
import json, os, importlib.util, sys
HERE = os.path.dirname(os.path.dirname(os.path.abspath(__file__)))
ALL = ["C%02d" % i for i in range(1, 21)]

CLAIMS = {
 "C01": dict(technique="deviation-bounded exhaustive enumeration of (program x shooting configuration) states, each executed on the real rockit and compared row-for-row with a reference RK4/Euler/difference-equation transcription",
             text="Every OCP/configuration reachable by <=2 (quick) / <=3 (+4 on a core) deviations from a non-degenerate base is declared on the real library; every gap-closing row, the SingleShooting recursion, the integrator-grid states and discrete_system() are compared with an independent numpy transcription at generic points plus one excitation per decision coordinate.",
             design="DESIGN.md 3 (C01)"),
}
NOTE = "Trusted: CasADi Function evaluation and Opti bookkeeping (x,p,f,g,lbg,ubg,initial), numpy/scipy, the reference model (written from the property statements, cross-checked against textbook closed forms). Numeric quantifiers are closed by a fixed generic-point alphabet (a stated bound), configuration quantifiers by the stated deviation/depth bound."

def main():
    checks = []
    for pid in ALL:
        if pid not in CLAIMS: continue
        c = CLAIMS[pid]
        checks.append(dict(
            property_id=pid,
            quick_cmd="./check %s --tier quick" % pid,
            thorough_cmd="./check %s --tier thorough" % pid,
            evidence_file="/verif/evidence/%s.json" % pid,
            replay_cmd_template="./check %s --replay {path}" % pid,
            engine="mc-explorer",
            level_claimed=dict(category="model_checking", text=c["text"], design_ref=c["design"]),
            level_note=c.get("note", NOTE),
            technique=c["technique"]))
    na = [dict(property_id=p, reason=NA.get(p, "check not built yet in this session (work in progress); the design in DESIGN.md applies and the property is within the family")) for p in ALL if p not in CLAIMS]
    m = dict(
        version=1,
        setup_cmd="/venv/bin/python -m compileall -q mc >/dev/null && /venv/bin/python -c \"import sys; sys.path.insert(0,'/repo'); import casadi, numpy, scipy, rockit; import mc.main\"",
        hooks=dict(guard="ROCKIT_VERIF", enable="no source hooks are needed: every seam (NLP extraction, solver spy, fake solution) is reachable from outside the package; checks import rockit from /repo's working tree",
                   baseline_off_cmd="cd /repo && /venv/bin/python -m pytest -ra -q -p no:cacheprovider --timeout=900 --continue-on-collection-errors",
                   source_commits=[], add_only=True),
        engines=[dict(name="mc-explorer", path="/verif/mc", serves_properties=sorted(CLAIMS), kind_free_text="hand-written explicit-state explorer for Python: deviation-bounded product enumeration and depth-bounded history enumeration of rockit's public API, executed on the real implementation in lock-step with a numpy reference model")],
        checks=checks,
        notes="All checks: ./check <ID> --tier quick|thorough ; exit 0 held, 1 violation (VIOLATION line + replay file), 2 harness error. Known findings: /verif/known_findings.json.",
        not_applicable=na)
    json.dump(m, open(os.path.join(HERE, "MANIFEST.json"), "w"), indent=1)
    print("claimed", len(checks), "not_applicable", len(na))

NA = {}
if __name__ == "__main__":
    main()

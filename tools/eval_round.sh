#!/bin/bash
# usage: tools/eval_round.sh <suffix-letter> <round-tag> C01 [extra props...]   e.g. tools/eval_round.sh c r3 C01 C13
S=$1; R=$2; P=$3; shift 3
if [ -d /tmp/wt/${P}${S}/_out ]; then cp -r /tmp/wt/${P}${S}/_out /tmp/agent_out/${P}${S}; git -C /repo worktree remove --force /tmp/wt/${P}${S}; fi
for m in $(ls /tmp/agent_out/${P}${S}/ | grep -o '^m[0-9]\.diff' | sed 's/\.diff//'); do
  python3 /verif/tools/mutant.py $P-$R-$m /tmp/agent_out/${P}${S}/$m.diff /tmp/agent_out/${P}${S}/${m}_demo.py $P "$@" --keep > /tmp/p/mut_${P}_${R}_$m.json 2>&1 &
done
wait
for m in $(ls /tmp/agent_out/${P}${S}/ | grep -o '^m[0-9]\.diff' | sed 's/\.diff//'); do python3 -c "
import json,sys
r=json.load(open('/tmp/p/mut_${P}_${R}_$m.json')); print(r['name'],'valid',r.get('valid'),'detected',r.get('detected'), r.get('stable_tests'), r.get('demo_clean_rc'), r.get('demo_mutant_rc'), r.get('apply_err'), {k:(v['rc'],v['violations'],[s.split('sig=')[1].split(' ')[0] for s in v['sigs'][:2]]) for k,v in r.get('detected_by',{}).items()})" | cut -c1-400; done
